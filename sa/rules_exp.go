package main

import (
	"fmt"
	"go/ast"
	"go/constant"
	"go/token"
	"go/types"
	"strings"

	"golang.org/x/tools/go/cfg"
)

// ---- RW: ICE containment and progress guards (C28) -------------------------------------------

func rwICE(w *World) {
	w.rule("RW")
	catch := w.fn(reportRel, "(*Report).CatchICE")
	if catch == nil {
		return
	}
	stages := []struct{ rel, fn string }{
		{"experimental/internal/lexer", "loop"},
		{"experimental/parser", "parse"},
		{"experimental/ir", "lower"},
	}
	for _, st := range stages {
		fr := w.fn(st.rel, st.fn)
		if fr == nil {
			continue
		}
		info := fr.Pkg.TypesInfo
		key := "catch-ice|" + fr.Name
		found := false
		for i, s := range fr.Decl.Body.List {
			ds, ok := s.(*ast.DeferStmt)
			if !ok {
				// only plain assignments / declarations may precede the handler
				switch s.(type) {
				case *ast.AssignStmt, *ast.DeclStmt:
					continue
				}
				break
			}
			if f := callee(info, ds.Call); f == catch.Obj {
				found = true
				if len(ds.Call.Args) >= 1 && render(ds.Call.Args[0]) == "false" {
					w.ok(key, ds.Pos(), fmt.Sprintf("defer CatchICE(false, …) is statement %d of the stage entry, preceded only by plain assignments: a panic anywhere in the stage becomes an ICE diagnostic instead of crashing the caller", i+1))
				} else {
					w.violation(key, ds.Pos(), "CatchICE is deferred with resume != false: the panic is re-raised to the caller")
				}
			}
			break
		}
		if !found {
			w.violation(key, fr.Decl.Pos(), "stage entry does not start by deferring Report.CatchICE(false, …) (only plain assignments may precede it): panics in this stage escape to the caller")
		}
	}
	// driver loops guard progress first
	guards := map[string]bool{"ensureProgress": true, "check": true}
	drivers := []struct{ rel, fn string }{
		{"experimental/internal/lexer", "loop"},
		{"experimental/parser", "parse"},
		{"experimental/parser", "(*defParser).parse"},
		{"experimental/parser", "(*delimited).iter"},
	}
	n := 0
	for _, dv := range drivers {
		p := w.pkg(dv.rel)
		if p == nil {
			continue
		}
		fr := w.fnOpt(dv.rel, dv.fn)
		if fr == nil {
			continue
		}
		info := fr.Pkg.TypesInfo
		ast.Inspect(fr.Decl.Body, func(x ast.Node) bool {
			fs, ok := x.(*ast.ForStmt)
			if !ok || fs.Cond == nil || fs.Init != nil || fs.Post != nil {
				return true
			}
			ue, ok := ast.Unparen(fs.Cond).(*ast.UnaryExpr)
			if !ok || ue.Op != token.NOT {
				return true
			}
			c, ok := ast.Unparen(ue.X).(*ast.CallExpr)
			if !ok {
				return true
			}
			s, ok := ast.Unparen(c.Fun).(*ast.SelectorExpr)
			if !ok || (s.Sel.Name != "Done" && s.Sel.Name != "done") {
				return true
			}
			n++
			key := "progress-guard|" + fr.Name
			okGuard := false
			if len(fs.Body.List) > 0 {
				if es, ok := fs.Body.List[0].(*ast.ExprStmt); ok {
					if gc, ok := es.X.(*ast.CallExpr); ok {
						if f := callee(info, gc); f != nil && guards[f.Name()] {
							okGuard = true
						}
					}
				}
			}
			if okGuard {
				w.ok(key, fs.Pos(), "the `for !"+render(c.Fun)+"()` driver loop calls its progress guard first: a non-advancing iteration panics (→ ICE diagnostic) instead of spinning forever")
			} else {
				w.violation(key, fs.Pos(), "driver loop `for !"+render(c.Fun)+"()` does not start with its progress guard: an iteration that consumes nothing loops forever")
			}
			return false
		})
	}
	w.floor("guarded driver loops", n, 3)
}

// fnOpt is like fn but records nothing when the anchor is missing (optional anchors).
func (w *World) fnOpt(rel, name string) *FuncRef {
	n := len(w.Obls)
	fr := w.fn(rel, name)
	if fr == nil {
		w.Obls = w.Obls[:n]
	}
	return fr
}

// ---- RV: accumulate/flush pairing in the experimental lexer (C29) -----------------------------

func rvLexer(w *World) {
	w.rule("RV")
	rel := "experimental/internal/lexer"
	p := w.pkg(rel)
	loop := w.fn(rel, "loop")
	bad := w.field(rel, "lexer", "badBytes")
	prelude := w.fn(rel, "lexPrelude")
	if p == nil || loop == nil || bad == nil || prelude == nil {
		return
	}
	info := p.TypesInfo
	flushers := map[string]bool{"flushUnrecognized": true, "keyword": true, "push": true}
	isAcc := func(x ast.Node) bool {
		as, ok := x.(*ast.AssignStmt)
		if !ok || as.Tok == token.ASSIGN || as.Tok == token.DEFINE {
			return false
		}
		for _, l := range as.Lhs {
			if selField(info, l) == bad {
				return true
			}
		}
		return false
	}
	isFlush := func(x ast.Node) bool {
		c, ok := x.(*ast.CallExpr)
		if !ok {
			return false
		}
		f := callee(info, c)
		return f != nil && f.Pkg() == p.Types && flushers[f.Name()]
	}
	na, badExits := mustFollow(info, loop.Decl.Body, isAcc, isFlush)
	w.floor("accumulation sites of lexer.badBytes in loop", na, 1)
	if len(badExits) == 0 {
		w.ok("loop|flush-before-return", loop.Decl.Pos(), "every path from an increment of lexer.badBytes to the end of loop passes a call that flushes the pending run (flushUnrecognized/keyword/push): no unrecognized bytes are dropped at end of input")
	} else {
		for _, e := range badExits {
			w.violation("loop|flush-before-return", e.Pos, "loop can return while unrecognized bytes are still only accumulated in lexer.badBytes: they are never pushed as a token nor diagnosed, so the tokens do not cover the input")
		}
	}
	// badBytes is written only in loop (accumulate) and in the flush helper (reset)
	nW := 0
	for _, b := range allFuncBodies(p) {
		if b.Lit != nil {
			continue
		}
		ast.Inspect(b.Body, func(x ast.Node) bool {
			if as, ok := x.(*ast.AssignStmt); ok {
				for _, l := range as.Lhs {
					if selField(info, l) == bad {
						nW++
						if b.Obj == loop.Obj || flushers[b.Obj.Name()] {
							w.okTrivial("badBytes-writer|"+b.Label, l.Pos(), "accumulate or flush")
						} else {
							w.violation("badBytes-writer|"+b.Label, l.Pos(), "lexer.badBytes written outside loop and the flush helpers")
						}
					}
				}
			}
			return true
		})
	}
	w.floor("writes of lexer.badBytes", nW, 2)

	// RV2: prelude bail-outs: a `return false` with non-empty text leaves the input without tokens
	g := buildCFG(info, prelude.Decl.Body)
	d := &Dataflow{G: g, Must: true, Init: Facts{}}
	d.Transfer = func(n ast.Node, in Facts) Facts {
		out := in
		inspectPost(n, func(x ast.Node) {
			if isFlush(x) {
				out = out.with("pushed")
			}
		})
		return out
	}
	d.Branch = func(leaf ast.Expr, truth bool, s Facts) Facts {
		// l.Text() == "" true edge: empty input needs no tokens
		if be, ok := leaf.(*ast.BinaryExpr); ok && be.Op == token.EQL && render(be.Y) == `""` && truth {
			return s.with("empty")
		}
		return s
	}
	d.Run()
	nRet := 0
	d.Walk(func(_ *cfg.Block, n ast.Node, before Facts) {
		r, ok := n.(*ast.ReturnStmt)
		if !ok || len(r.Results) != 1 || render(r.Results[0]) != "false" {
			return
		}
		nRet++
		// identify the bail-out by the message of the preceding diagnostic
		msg := "?"
		parents := parentMap(prelude.Decl.Body)
		if list, i := containingList(parents, r); list != nil {
			for j := i - 1; j >= 0 && msg == "?"; j-- {
				ast.Inspect(list[j], func(y ast.Node) bool {
					if bl, ok := y.(*ast.BasicLit); ok && bl.Kind == token.STRING && msg == "?" {
						words := strings.Fields(strings.Trim(bl.Value, "\"`"))
						if len(words) > 8 {
							words = words[:8]
						}
						msg = strings.Join(words, " ")
					}
					return true
				})
			}
		}
		key := "lexPrelude|bail:" + msg
		if before["pushed"] || before["empty"] {
			w.ok(key, r.Pos(), "tokens were pushed (or the input is empty) before bailing out")
		} else {
			w.violation(key, r.Pos(), "lexPrelude gives up on a non-empty input without pushing any token: the resulting stream has no tokens, so it does not cover the input")
		}
	})
	w.floor("bail-outs of lexPrelude", nRet, 3)
}

// ---- RY: interning constants, types and publication order (C38) ---------------------------------

func ryIntern(w *World) {
	w.rule("RY")
	rel := "internal/intern"
	p := w.pkg(rel)
	if p == nil {
		return
	}
	info := p.TypesInfo
	// constants
	var alphabet string
	var alphaPos token.Pos
	for _, f := range p.Syntax {
		ast.Inspect(f, func(x ast.Node) bool {
			vs, ok := x.(*ast.ValueSpec)
			if !ok {
				return true
			}
			for i, nm := range vs.Names {
				if nm.Name == "char6ToByte" && i < len(vs.Values) {
					ast.Inspect(vs.Values[i], func(y ast.Node) bool {
						if bl, ok := y.(*ast.BasicLit); ok && bl.Kind == token.STRING {
							if tv, ok := info.Types[bl]; ok && tv.Value != nil {
								alphabet = constant.StringVal(tv.Value)
								alphaPos = bl.Pos()
							}
						}
						return true
					})
				}
			}
			return true
		})
	}
	if alphabet == "" {
		w.undecided("alphabet", token.NoPos, "char6ToByte string literal not found")
	} else {
		distinct := map[byte]bool{}
		for i := 0; i < len(alphabet); i++ {
			distinct[alphabet[i]] = true
		}
		switch {
		case len(alphabet) != 64 || len(distinct) != 64:
			w.violation("alphabet|64-distinct", alphaPos, fmt.Sprintf("the inline alphabet has %d bytes, %d distinct: the 6-bit encoding is not one-to-one", len(alphabet), len(distinct)))
		case alphabet[63] != '.':
			w.violation("alphabet|pad-is-dot", alphaPos, "sextet 63 (all ones, the padding produced by the initial value -1) is not '.': decoding strips trailing '.', so padding would decode to characters")
		default:
			w.ok("alphabet", alphaPos, "64 distinct bytes; sextet 63 (padding) is '.', the only character a name may not end with")
		}
	}
	if c, ok := p.Types.Scope().Lookup("maxInlined").(*types.Const); ok {
		v, _ := constant.Int64Val(c.Val())
		if v*6 < 32 && v > 0 {
			w.ok("maxInlined", c.Pos(), fmt.Sprintf("maxInlined = %d: %d payload bits fit in an int32 below the sign bit pair", v, v*6))
		} else {
			w.violation("maxInlined", c.Pos(), fmt.Sprintf("maxInlined = %d needs %d bits: inline IDs overflow int32", v, v*6))
		}
	} else {
		w.undecided("maxInlined", token.NoPos, "constant maxInlined not found")
	}
	// lossless reverse lookup: the encoder indexes the reverse table with the input byte itself and
	// the table has an entry for every byte value. An index that is masked, shifted or otherwise
	// computed from the byte maps several bytes to one table entry: a byte >= 0x80 would be encoded
	// as the ASCII character sharing its low bits, so two different strings get the same inline ID.
	if outl0 := w.fn(rel, "encodeOutlined"); outl0 != nil {
		nIx := 0
		ast.Inspect(outl0.Decl.Body, func(x ast.Node) bool {
			ix, ok := x.(*ast.IndexExpr)
			if !ok {
				return true
			}
			id, ok := ast.Unparen(ix.X).(*ast.Ident)
			if !ok || id.Name != "byteToChar6" {
				return true
			}
			nIx++
			// index must be a plain element of the input (possibly converted), without arithmetic
			e := ast.Unparen(ix.Index)
			for {
				c, ok := e.(*ast.CallExpr)
				if !ok || len(c.Args) != 1 {
					break
				}
				if tv, ok := info.Types[c.Fun]; !ok || !tv.IsType() {
					break
				}
				e = ast.Unparen(c.Args[0])
			}
			plain := false
			if in, ok := e.(*ast.IndexExpr); ok {
				if t := info.TypeOf(in.X); t != nil {
					if bt, ok := t.Underlying().(*types.Basic); ok && bt.Info()&types.IsString != 0 {
						plain = true
					}
					if sl, ok := t.Underlying().(*types.Slice); ok && types.Identical(sl.Elem(), types.Typ[types.Byte]) {
						plain = true
					}
				}
			}
			// table size: array length or make(…, N)
			size := int64(-1)
			if tt := info.TypeOf(ix.X); tt != nil {
				if arr, ok := tt.Underlying().(*types.Array); ok {
					size = arr.Len()
				}
			}
			if size < 0 {
				for _, f := range p.Syntax {
					ast.Inspect(f, func(y ast.Node) bool {
						vs, ok := y.(*ast.ValueSpec)
						if !ok {
							return true
						}
						for i, nm := range vs.Names {
							if nm.Name == "byteToChar6" && i < len(vs.Values) {
								ast.Inspect(vs.Values[i], func(z ast.Node) bool {
									if c, ok := z.(*ast.CallExpr); ok && isBuiltinCall(info, c, "make") && len(c.Args) >= 2 {
										if tv, ok := info.Types[c.Args[1]]; ok && tv.Value != nil {
											size, _ = constant.Int64Val(tv.Value)
										}
									}
									return true
								})
							}
						}
						return true
					})
				}
			}
			switch {
			case plain && size >= 256:
				w.ok("reverse-lookup|lossless", ix.Pos(), fmt.Sprintf("the reverse table (%d entries) is indexed with the input byte itself", size))
			case !plain:
				w.violation("reverse-lookup|lossless", ix.Pos(), "the reverse table is indexed with "+types.ExprString(ix.Index)+", not with the input byte itself: distinct bytes share an entry, so the inline encoding is not one-to-one (a non-ASCII byte is encoded as the ASCII character with the same low bits)")
			default:
				w.violation("reverse-lookup|lossless", ix.Pos(), fmt.Sprintf("the reverse table has %d entries but is indexed with a byte (0..255)", size))
			}
			return true
		})
		w.floor("reverse-table lookups in encodeOutlined", nIx, 1)
	}
	// encodeChar6 guards
	enc := w.fn(rel, "encodeChar6")
	outl := w.fn(rel, "encodeOutlined")
	if enc != nil && outl != nil {
		g := buildCFG(info, enc.Decl.Body)
		d := &Dataflow{G: g, Must: true, Init: Facts{}, Transfer: func(n ast.Node, in Facts) Facts { return in }}
		d.Branch = func(leaf ast.Expr, truth bool, s Facts) Facts {
			if be, ok := leaf.(*ast.BinaryExpr); ok && be.Op == token.GTR && !truth {
				if c, ok := ast.Unparen(be.X).(*ast.CallExpr); ok && isBuiltinCall(info, c, "len") && render(be.Y) == "maxInlined" {
					return s.with("len-ok")
				}
			}
			if c, ok := leaf.(*ast.CallExpr); ok && !truth {
				if f := callee(info, c); f != nil && f.Pkg() != nil && f.Pkg().Path() == "strings" && f.Name() == "HasSuffix" && len(c.Args) == 2 && render(c.Args[1]) == `"."` {
					return s.with("no-trailing-dot")
				}
			}
			return s
		}
		d.Run()
		d.Walk(func(_ *cfg.Block, n ast.Node, before Facts) {
			inspectPost(n, func(x ast.Node) {
				if _, ok := isCallTo(info, x, outl.Obj); ok {
					if before["len-ok"] && before["no-trailing-dot"] {
						w.ok("encode-guards", x.Pos(), "the inline encoder runs only for len(s) <= maxInlined and s not ending in '.' (the padding symbol): distinct strings get distinct inline IDs")
					} else {
						w.violation("encode-guards", x.Pos(), "encodeOutlined is reachable without both guards (len(s) <= maxInlined, no trailing '.'): two different strings can share an inline ID (state "+before.String()+")")
					}
				}
			})
		})
	}
	// Table fields are synchronisation types; methods use pointer receivers
	if tb := w.typ(rel, "Table"); tb != nil {
		st := tb.Underlying().(*types.Struct)
		for i := 0; i < st.NumFields(); i++ {
			f := st.Field(i)
			ts := f.Type().String()
			if strings.HasPrefix(ts, "sync.") || strings.HasPrefix(ts, "sync/atomic.") || strings.Contains(ts, "/syncx.") {
				w.okTrivial("table-field|"+f.Name(), f.Pos(), "synchronisation type "+ts)
			} else {
				w.violation("table-field|"+f.Name(), f.Pos(), "intern.Table."+f.Name()+" ("+ts+") is not a sync/atomic/syncx type: concurrent Intern calls race on it")
			}
		}
		for i := 0; i < tb.NumMethods(); i++ {
			m := tb.Method(i)
			if _, isPtr := m.Type().(*types.Signature).Recv().Type().(*types.Pointer); !isPtr {
				w.violation("table-recv|"+m.Name(), m.Pos(), "method with a value receiver copies the table's sync state")
			}
		}
		w.ok("table-recv", tb.Obj().Pos(), fmt.Sprintf("all %d methods of intern.Table have pointer receivers", tb.NumMethods()))
	}
	// internSlow: append to the log before publishing the id; poison before panic
	slow := w.fn(rel, "(*Table).internSlow")
	tableF := w.field(rel, "Table", "table")
	indexF := w.field(rel, "Table", "index")
	if slow != nil && tableF != nil && indexF != nil {
		isAppend := func(x ast.Node) bool {
			c, ok := x.(*ast.CallExpr)
			if !ok {
				return false
			}
			m, ok := methodOnField(info, c, tableF)
			return ok && m == "Append"
		}
		isPublish := func(x ast.Node) bool {
			c, ok := x.(*ast.CallExpr)
			if !ok {
				return false
			}
			s, ok := ast.Unparen(c.Fun).(*ast.SelectorExpr)
			if !ok || s.Sel.Name != "Store" {
				return false
			}
			tv, ok := info.Types[s.X]
			return ok && strings.Contains(tv.Type.String(), "atomic.Int32")
		}
		nb, bad := mustPrecede(info, slow.Decl.Body, isAppend, isPublish)
		if nb >= 1 && len(bad) == 0 {
			w.ok("internSlow|append-before-publish", slow.Decl.Pos(), "the string is appended to the log before its id is stored in the index slot: a reader that sees a non-zero id can always load the string")
		} else {
			w.violation("internSlow|append-before-publish", slow.Decl.Pos(), "the id can be published before the string is in the log")
		}
		isPoison := func(x ast.Node) bool {
			c, ok := x.(*ast.CallExpr)
			if !ok {
				return false
			}
			m, ok := methodOnField(info, c, indexF)
			return ok && m == "Store"
		}
		// the panic(err) after a failed Append must be preceded by the poison store
		isErrPanic := func(x ast.Node) bool {
			c, ok := x.(*ast.CallExpr)
			return ok && isBuiltinCall(info, c, "panic") && len(c.Args) == 1 && render(c.Args[0]) == "err"
		}
		nb, bad = mustPrecede(info, slow.Decl.Body, isPoison, isErrPanic)
		if nb >= 1 && len(bad) == 0 {
			w.ok("internSlow|poison-before-panic", slow.Decl.Pos(), "a failed append poisons the index slot before panicking, so waiters spinning on the slot do not spin forever")
		} else {
			w.violation("internSlow|poison-before-panic", slow.Decl.Pos(), "a failed append can panic without poisoning the index slot: concurrent interners of the same string spin forever")
		}
		// the index key is the private clone: strings.Clone precedes the first index operation
		isClone := func(x ast.Node) bool {
			as, ok := x.(*ast.AssignStmt)
			if !ok || len(as.Rhs) != 1 {
				return false
			}
			c, ok := ast.Unparen(as.Rhs[0]).(*ast.CallExpr)
			if !ok {
				return false
			}
			f := callee(info, c)
			return f != nil && f.Pkg() != nil && f.Pkg().Path() == "strings" && f.Name() == "Clone"
		}
		isIndexOp := func(x ast.Node) bool {
			c, ok := x.(*ast.CallExpr)
			if !ok {
				return false
			}
			_, ok = methodOnField(info, c, indexF)
			return ok
		}
		nb, bad = mustPrecede(info, slow.Decl.Body, isClone, isIndexOp)
		if nb >= 1 && len(bad) == 0 {
			w.ok("internSlow|clone-before-index", slow.Decl.Pos(), "the string is cloned before it is used as the index key: the key never aliases a caller's buffer (InternBytes passes an alias of the caller's bytes)")
		} else {
			w.violation("internSlow|clone-before-index", slow.Decl.Pos(), "the index is accessed with a key that is not yet the private clone: through InternBytes the map key aliases the caller's byte slice, and reusing that buffer later changes the key under the map (equal strings get different ids, different strings share one)")
		}
		// atomic insert-if-absent: the placeholder enters the index only through LoadOrStore; Store is
		// allowed only for the typed-nil poison
		for _, b := range allFuncBodies(p) {
			if b.Lit != nil {
				continue
			}
			ast.Inspect(b.Body, func(x ast.Node) bool {
				c, ok := x.(*ast.CallExpr)
				if !ok {
					return true
				}
				m, ok := methodOnField(info, c, indexF)
				if !ok {
					return true
				}
				key := "index-op|" + b.Label + "|" + m
				switch m {
				case "Load", "LoadOrStore", "Range":
					w.okTrivial(key, c.Pos(), "read or atomic insert-if-absent")
				case "Store":
					isPoison := false
					if len(c.Args) == 2 {
						if tv, ok := info.Types[c.Args[1]]; ok && tv.IsNil() {
							isPoison = true
						}
						if call, ok := ast.Unparen(c.Args[1]).(*ast.CallExpr); ok && len(call.Args) == 1 && isNilIdent(info, call.Args[0]) {
							isPoison = true // (*atomic.Int32)(nil)
						}
					}
					if isPoison {
						w.ok(key, c.Pos(), "Store is used only to poison the slot with a typed nil after a failed append")
					} else {
						w.violation(key, c.Pos(), "Table.index.Store of a placeholder: inserting with Load-then-Store is a check-then-act race — two goroutines interning the same new string both become leader and hand out different ids; use LoadOrStore")
					}
				default:
					w.violation(key, c.Pos(), "unexpected operation Table.index."+m)
				}
				return true
			})
		}
		// id offset agreement: writer stores i+K, reader loads id-K
		var wk, rk int64 = -1, -2
		ast.Inspect(slow.Decl.Body, func(x ast.Node) bool {
			if be, ok := x.(*ast.BinaryExpr); ok && be.Op == token.ADD && render(be.X) == "i" {
				if tv, ok := info.Types[be.Y]; ok && tv.Value != nil {
					wk, _ = constant.Int64Val(tv.Value)
				}
			}
			return true
		})
		if val := w.fn(rel, "(*Table).value"); val != nil {
			ast.Inspect(val.Decl.Body, func(x ast.Node) bool {
				if be, ok := x.(*ast.BinaryExpr); ok && be.Op == token.SUB {
					if tv, ok := info.Types[be.Y]; ok && tv.Value != nil {
						rk, _ = constant.Int64Val(tv.Value)
					}
				}
				return true
			})
			if wk == rk && wk > 0 {
				w.ok("id-offset", val.Decl.Pos(), fmt.Sprintf("ids are log index + %d when written and - %d when read (0 stays the empty string)", wk, rk))
			} else {
				w.violation("id-offset", val.Decl.Pos(), fmt.Sprintf("writer offsets ids by %d, reader by %d", wk, rk))
			}
		}
	}
}

// ---- RZ: panic inventory of toposort (C41) ---------------------------------------------------------

func rzToposort(w *World) {
	w.rule("RZ")
	rel := "internal/toposort"
	p := w.pkg(rel)
	if p == nil {
		return
	}
	info := p.TypesInfo
	guards := map[string]string{
		"Sort() called reëntrantly": "API misuse guard (re-entrant iteration of one Sorter), unreachable for valid callers",
	}
	n := 0
	for _, b := range allFuncBodies(p) {
		if b.Lit != nil {
			continue
		}
		ast.Inspect(b.Body, func(x ast.Node) bool {
			c, ok := x.(*ast.CallExpr)
			if !ok || !isBuiltinCall(info, c, "panic") {
				return true
			}
			n++
			msg := ""
			ast.Inspect(c, func(y ast.Node) bool {
				if bl, ok := y.(*ast.BasicLit); ok && bl.Kind == token.STRING && msg == "" {
					msg = strings.Trim(bl.Value, "\"`")
				}
				return true
			})
			for g, why := range guards {
				if strings.Contains(msg, g) {
					w.ok("panic|"+b.Label+"|guard", c.Pos(), why)
					return true
				}
			}
			if strings.Contains(msg, "cycle detected") {
				w.violation("panic|"+b.Label+"|cycle", c.Pos(), "toposort panics when the input graph has a cycle (reached on the `walking` state, which depends only on the input): the property requires it to terminate and yield every reachable node once")
			} else {
				w.undecided("panic|"+b.Label+"|"+msg, c.Pos(), "unclassified panic in toposort: decide whether valid input can reach it")
			}
			return true
		})
	}
	w.floor("panic sites in internal/toposort", n, 2)
}

// rv3PreludeEncodingGate (RV3, C28/C29): the main lexer loop assumes valid UTF-8, so lexPrelude may
// let lexing proceed only when it counted no invalid byte. The decision is a switch over values
// derived from (count, len(text)); it is evaluated on every point 0 <= count <= n <= N of a finite
// model and must proceed exactly when count == 0.
func rv3PreludeEncodingGate(w *World) {
	w.rule("RV3")
	rel := "experimental/internal/lexer"
	p := w.pkg(rel)
	prelude := w.fn(rel, "lexPrelude")
	if p == nil || prelude == nil {
		return
	}
	info := p.TypesInfo
	// find the switch whose clauses return false (bail) or break (proceed), preceded by an assignment of a derived variable
	var sw *ast.SwitchStmt
	ast.Inspect(prelude.Decl.Body, func(x ast.Node) bool {
		if s, ok := x.(*ast.SwitchStmt); ok && s.Tag == nil && len(s.Body.List) >= 2 {
			sw = s
		}
		return true
	})
	if sw == nil {
		w.undecided("encoding-gate|switch", prelude.Decl.Pos(), "no tagless switch deciding the encoding check found in lexPrelude")
		return
	}
	// derived variables: simple assignments `v := expr` before the switch in the same function
	type def struct {
		name string
		expr ast.Expr
	}
	var defs []def
	for _, st := range prelude.Decl.Body.List {
		if st.Pos() >= sw.Pos() {
			break
		}
		if as, ok := st.(*ast.AssignStmt); ok && as.Tok == token.DEFINE && len(as.Lhs) == 1 && len(as.Rhs) == 1 {
			defs = append(defs, def{render(as.Lhs[0]), as.Rhs[0]})
		}
	}
	// which variable is the counter? the one incremented in the loop
	counter := ""
	ast.Inspect(prelude.Decl.Body, func(x ast.Node) bool {
		if ids, ok := x.(*ast.IncDecStmt); ok && ids.Tok == token.INC {
			counter = render(ids.X)
		}
		return true
	})
	if counter == "" {
		// the counting loop may live in a helper: `idx, count := invalidUTF8(text)` where the helper
		// increments one of its (named) results in a loop; the counter is the variable bound to it
		ast.Inspect(prelude.Decl.Body, func(x ast.Node) bool {
			as, ok := x.(*ast.AssignStmt)
			if !ok || len(as.Rhs) != 1 || counter != "" {
				return true
			}
			c, ok := ast.Unparen(as.Rhs[0]).(*ast.CallExpr)
			if !ok {
				return true
			}
			f := callee(info, c)
			if f == nil {
				return true
			}
			d := gDecls[f.Origin()]
			if d == nil || d.Body == nil || d.Type.Results == nil {
				return true
			}
			inc := ""
			ast.Inspect(d.Body, func(y ast.Node) bool {
				if ids, ok := y.(*ast.IncDecStmt); ok && ids.Tok == token.INC {
					inc = render(ids.X)
				}
				return true
			})
			if inc == "" {
				return true
			}
			// position of the incremented variable among the results (named results, or the
			// variable returned at that position)
			ri := 0
			for _, fl := range d.Type.Results.List {
				for _, nm := range fl.Names {
					if nm.Name == inc && ri < len(as.Lhs) {
						counter = render(as.Lhs[ri])
					}
					ri++
				}
			}
			if counter == "" {
				ast.Inspect(d.Body, func(y ast.Node) bool {
					if r, ok := y.(*ast.ReturnStmt); ok {
						for i, e := range r.Results {
							if render(e) == inc && i < len(as.Lhs) {
								counter = render(as.Lhs[i])
							}
						}
					}
					return true
				})
			}
			return true
		})
	}
	if counter == "" {
		w.undecided("encoding-gate|counter", prelude.Decl.Pos(), "no invalid-byte counter (x++) found in lexPrelude or in a helper it calls")
		return
	}
	const N = 1500
	bad := ""
	points := 0
	for n := int64(1); n <= N && bad == ""; n += 1 {
		for _, c := range []int64{0, 1, 2, n / 200, n / 101, n / 100, n / 5, n} {
			if c < 0 || c > n {
				continue
			}
			ev := &numEnv{info: info, vars: map[string]num{counter: {i: c}}, lenOf: func(ast.Expr) (int64, bool) { return n, true }}
			okDefs := true
			for _, d := range defs {
				if d.name == counter || d.name == "bom16" || d.name == "ascii16" {
					continue
				}
				if v, ok := ev.eval(d.expr); ok {
					ev.vars[d.name] = v
				}
			}
			_ = okDefs
			// first matching clause
			proceeds, decided := false, false
			for _, cl := range sw.Body.List {
				cc := cl.(*ast.CaseClause)
				match := cc.List == nil
				for _, e := range cc.List {
					v, ok := ev.eval(e)
					if !ok || !v.isBool {
						w.undecided("encoding-gate|shape", e.Pos(), "cannot evaluate the case condition "+render(e)+" over (count, len): the gate is no longer a numeric predicate of those two")
						return
					}
					if v.b {
						match = true
					}
				}
				if !match {
					continue
				}
				decided = true
				bails := false
				for _, st := range cc.Body {
					if r, ok := st.(*ast.ReturnStmt); ok && len(r.Results) == 1 && render(r.Results[0]) == "false" {
						bails = true
					}
				}
				proceeds = !bails
				break
			}
			points++
			if !decided {
				continue
			}
			if proceeds != (c == 0) {
				bad = fmt.Sprintf("with %d invalid byte(s) in %d bytes of input the prelude %s", c, n, map[bool]string{true: "lets lexing proceed", false: "refuses to lex"}[proceeds])
				break
			}
		}
	}
	if bad == "" {
		w.ok("encoding-gate", sw.Pos(), fmt.Sprintf("evaluated the prelude's encoding decision on %d (count, length) points up to length %d: lexing proceeds exactly when no invalid UTF-8 byte was counted", points, N))
	} else {
		w.violation("encoding-gate", sw.Pos(), bad+": the main loop assumes valid UTF-8, so such input makes the lexer fail to make progress or build malformed spans (internal compiler errors instead of an encoding diagnostic)")
	}
	// the gate is on every path: lexPrelude may answer "go on" (return true) only after the gate
	// switch has been evaluated — an earlier `return true` (say, "a BOM settles the encoding")
	// lets undecodable bytes into the main loop all the same
	firstCase := map[ast.Node]bool{}
	for _, c := range sw.Body.List {
		cc := c.(*ast.CaseClause)
		for _, e := range cc.List {
			firstCase[e] = true
		}
		if len(cc.List) > 0 {
			break
		}
	}
	isGate := func(n ast.Node) bool {
		hit := false
		ast.Inspect(n, func(y ast.Node) bool {
			if firstCase[y] {
				hit = true
			}
			return !hit
		})
		return hit
	}
	gateParents := parentMap(prelude.Decl.Body)
	emptyInput := func(r ast.Node) bool {
		// `if <text> == "" { return true }` / `if len(<text>) == 0 { … }`: nothing to validate
		blk, _ := gateParents[r].(*ast.BlockStmt)
		ifs, _ := gateParents[blk].(*ast.IfStmt)
		if ifs == nil || ifs.Body != blk {
			return false
		}
		be, ok := ast.Unparen(ifs.Cond).(*ast.BinaryExpr)
		if !ok || be.Op != token.EQL {
			return false
		}
		if tv, ok := info.Types[be.Y]; ok && tv.Value != nil {
			if tv.Value.Kind() == constant.String && constant.StringVal(tv.Value) == "" {
				return true
			}
			if c, ok := ast.Unparen(be.X).(*ast.CallExpr); ok && isBuiltinCall(info, c, "len") {
				if v, ok := constant.Int64Val(constant.ToInt(tv.Value)); ok && v == 0 {
					return true
				}
			}
		}
		return false
	}
	isProceed := func(n ast.Node) bool {
		r, ok := n.(*ast.ReturnStmt)
		if !ok || len(r.Results) != 1 || emptyInput(r) {
			return false
		}
		tv, ok := info.Types[r.Results[0]]
		return ok && tv.Value != nil && tv.Value.Kind() == constant.Bool && constant.BoolVal(tv.Value)
	}
	nb, early := mustPrecede(info, prelude.Decl.Body, isGate, isProceed)
	if nb == 0 {
		w.undecided("encoding-gate|on-every-path", prelude.Decl.Pos(), "lexPrelude has no `return true`")
	} else if len(early) == 0 {
		w.ok("encoding-gate|on-every-path", sw.Pos(), fmt.Sprintf("each of the %d `return true` of lexPrelude is preceded on every path by the encoding gate", nb))
	} else {
		w.violation("encoding-gate|on-every-path", early[0].Pos(), "lexPrelude can return true at "+w.pos(early[0].Pos())+" without having evaluated the UTF-8 gate: the whole-file scan is the only thing that keeps undecodable bytes out of the main loop (peek/pop return -1 without advancing), so such a file ends in 'lexer failed to make progress' or a reversed span — internal compiler errors")
	}
}

// rz2SorterCleanup (RZ2, C41): the iterator returned by Sorter.Sort keeps scratch state in the
// Sorter (state map, stack, iterating flag). Every way out of the iterator — exhaustion, the
// consumer breaking out early, a panic — must reset all three, i.e. the reset is in a deferred
// function of the iterator closure itself; otherwise marks of one iteration leak into the next.
func rz2SorterCleanup(w *World) {
	w.rule("RZ2")
	rel := "internal/toposort"
	p := w.pkg(rel)
	sortFn := w.fn(rel, "(*Sorter).Sort")
	if p == nil || sortFn == nil {
		return
	}
	info := p.TypesInfo
	st := w.typ(rel, "Sorter")
	if st == nil {
		return
	}
	// scratch fields = fields of Sorter written inside the iterator closure (or push)
	var iter *ast.FuncLit
	ast.Inspect(sortFn.Decl.Body, func(x ast.Node) bool {
		if r, ok := x.(*ast.ReturnStmt); ok && len(r.Results) == 1 {
			if fl, ok := r.Results[0].(*ast.FuncLit); ok {
				iter = fl
			}
		}
		return true
	})
	if iter == nil {
		w.undecided("sorter-cleanup|iterator", sortFn.Decl.Pos(), "Sorter.Sort no longer returns a function literal")
		return
	}
	// the deferred cleanup: a function literal, or a method of the Sorter (e.g. `defer s.reset()`)
	var deferredBody *ast.BlockStmt
	for _, s := range iter.Body.List {
		if ds, ok := s.(*ast.DeferStmt); ok {
			if fl, ok := ds.Call.Fun.(*ast.FuncLit); ok {
				deferredBody = fl.Body
			} else if f := callee(info, ds.Call); f != nil && f.Pkg() == p.Types {
				if d := w.decls[f.Origin()]; d != nil && d.Body != nil {
					deferredBody = d.Body
				}
			}
		}
	}
	need := map[string]bool{"state": false, "stack": false, "iterating": false}
	if deferredBody != nil {
		ast.Inspect(deferredBody, func(x ast.Node) bool {
			switch e := x.(type) {
			case *ast.CallExpr:
				if isBuiltinCall(info, e, "clear") && len(e.Args) == 1 {
					if v := selField(info, e.Args[0]); v != nil {
						if v.Name() == "state" {
							need["state"] = true
						}
					}
				}
			case *ast.AssignStmt:
				for i, l := range e.Lhs {
					if v := selField(info, l); v != nil && i < len(e.Rhs) {
						switch v.Name() {
						case "stack":
							need["stack"] = true
						case "iterating":
							if render(e.Rhs[i]) == "false" {
								need["iterating"] = true
							}
						case "state":
							need["state"] = true
						}
					}
				}
			}
			return true
		})
	}
	var missing []string
	for k, ok := range need {
		if !ok {
			missing = append(missing, k)
		}
	}
	sortStrings(missing)
	if deferredBody != nil && len(missing) == 0 {
		w.ok("sorter-cleanup", deferredBody.Pos(), "the iterator defers a cleanup that clears Sorter.state, resets Sorter.stack and clears Sorter.iterating: no mark survives an exhausted, abandoned or panicking iteration")
	} else {
		w.violation("sorter-cleanup", iter.Pos(), "the iterator returned by Sorter.Sort does not reset "+strings.Join(missing, ", ")+" in a deferred function of its own: after an early break, a second range over the same sequence, or two sequences from one Sorter, stale marks make nodes disappear or produce a false cycle panic on a DAG")
	}
}

// rz3TrieByteKeys (RZ3, C41): trie keys are byte strings. Insertion and lookup must walk them the
// same way; a `range` over a string yields runes (UTF-8 decoding, invalid bytes become U+FFFD), so
// rune iteration over keys anywhere in package trie makes inserts and lookups disagree for
// non-ASCII keys.
func rz3TrieByteKeys(w *World) {
	w.rule("RZ3")
	p := w.pkg("internal/trie")
	if p == nil {
		return
	}
	info := p.TypesInfo
	n, bad := 0, 0
	for _, b := range allFuncBodies(p) {
		if b.Lit != nil {
			continue
		}
		ast.Inspect(b.Body, func(x ast.Node) bool {
			rs, ok := x.(*ast.RangeStmt)
			if !ok {
				return true
			}
			tv, ok := info.Types[rs.X]
			if !ok {
				return true
			}
			if bt, ok := tv.Type.Underlying().(*types.Basic); ok && bt.Info()&types.IsString != 0 {
				n++
				if rs.Value != nil {
					bad++
					w.violation("trie-byte-keys|"+b.Label, rs.Pos(), "rune iteration over a string key in package trie: keys are byte strings and the other operations index them byte-wise, so non-ASCII keys are stored under different nybbles than they are looked up with")
				}
			}
			return true
		})
	}
	if bad == 0 {
		w.ok("trie-byte-keys", token.NoPos, fmt.Sprintf("no rune-valued range over a string key in package trie (%d string ranges inspected): insert and lookup both walk bytes", n))
	}
}

func sortStrings(s []string) {
	for i := 1; i < len(s); i++ {
		for j := i; j > 0 && s[j] < s[j-1]; j-- {
			s[j], s[j-1] = s[j-1], s[j]
		}
	}
}

// RW5 (C28): constant-index expressions in the experimental lexer, its error-token diagnostics and
// the experimental parser are guarded by a length test of the same expression (or reviewed).
func rw5ConstIndexExperimental(w *World) {
	constIndexGuards(w, "RW5", []string{"experimental/internal/lexer", "experimental/internal/errtoken", "experimental/parser"},
		func(string) bool { return true },
		map[string]string{
			"errtoken.ImpureString.Diagnose|e.Token.Text()[0]": "the token is a string literal token: its text starts with the opening quote, so it is never empty",
		},
		3, "on malformed input the index is out of range, the panic is caught by CatchICE and reported as an internal compiler error")
}

// RW3 (C28, C29): a decode failure is RuneError *with width 1*. utf8.DecodeRune* returns
// (RuneError, 1) for invalid input and (RuneError, 0) for empty input, but (RuneError, 3) for a
// correctly encoded U+FFFD, which is a legal character in a Protobuf file. In the experimental
// lexer and the string helper it decodes with (internal/ext/stringsx), every comparison of a rune
// with utf8.RuneError must be qualified, in the same condition, by a test of the decoded width
// (n < 2, n == 1, n <= 1, n == 0): otherwise a literal U+FFFD reads as "end of input / invalid",
// the cursor stops advancing and the lexer reports an internal error or truncates the stream.
func rw3RuneErrorWidth(w *World) {
	w.rule("RW3")
	n := 0
	for _, rel := range []string{"experimental/internal/lexer", "internal/ext/stringsx"} {
		p := w.pkg(rel)
		if p == nil {
			continue
		}
		info := p.TypesInfo
		for _, b := range allFuncBodies(p) {
			if b.Lit != nil {
				continue
			}
			parents := parentMap(b.Decl)
			ast.Inspect(b.Body, func(x ast.Node) bool {
				be, ok := x.(*ast.BinaryExpr)
				if !ok || (be.Op != token.EQL && be.Op != token.NEQ) {
					return true
				}
				isRE := func(e ast.Expr) bool {
					sel, ok := ast.Unparen(e).(*ast.SelectorExpr)
					if !ok || sel.Sel.Name != "RuneError" {
						return false
					}
					if c, ok := info.Uses[sel.Sel].(*types.Const); ok && c.Pkg() != nil && c.Pkg().Path() == "unicode/utf8" {
						return true
					}
					return false
				}
				if !isRE(be.X) && !isRE(be.Y) {
					return true
				}
				n++
				key := "rune-error-width|" + b.Label + "|" + types.ExprString(be)
				// the enclosing boolean expression (up through && / ||) must also compare an
				// integer variable with a constant 0, 1 or 2 (the width)
				var top ast.Node = be
				for {
					pe, ok := parents[top].(*ast.BinaryExpr)
					if ok && (pe.Op == token.LAND || pe.Op == token.LOR) {
						top = pe
						continue
					}
					if par, ok := parents[top].(*ast.ParenExpr); ok {
						top = par
						continue
					}
					break
				}
				qualified := false
				ast.Inspect(top, func(y ast.Node) bool {
					c, ok := y.(*ast.BinaryExpr)
					if !ok || c == be {
						return true
					}
					switch c.Op {
					case token.LSS, token.LEQ, token.EQL, token.GTR, token.GEQ, token.NEQ:
						tv, ok := info.Types[c.Y]
						if !ok || tv.Value == nil {
							return true
						}
						if t := info.TypeOf(c.X); t != nil {
							if bt, ok := t.Underlying().(*types.Basic); ok && bt.Kind() == types.Int {
								switch tv.Value.String() {
								case "0", "1", "2":
									qualified = true
								}
							}
						}
					}
					return true
				})
				if qualified {
					w.ok(key, be.Pos(), "the RuneError test is qualified by the decoded width")
				} else {
					w.violation(key, be.Pos(), "a rune is compared with utf8.RuneError without looking at the decoded width: a correctly encoded U+FFFD (width 3) is indistinguishable from a decode failure here, so valid input containing it is treated as invalid / as the end of the input")
				}
				return true
			})
		}
	}
	w.floor("comparisons with utf8.RuneError in the lexer and its string helpers", n, 3)
}

// RW4 (C28): pointer parameters that receive a literal nil are tested before they are
// dereferenced. For every function of experimental/parser that some static call site calls with
// nil for a pointer parameter P, each dereference of P (*P, P.field, or a call of a method with a
// value receiver through P) must be dominated by P != nil (must-dataflow with branch facts; the
// false edge of `… || P == nil` counts).
func rw4NilParamDeref(w *World) {
	w.rule("RW4")
	p := w.pkg("experimental/parser")
	if p == nil {
		return
	}
	info := p.TypesInfo
	// (callee, param index) pairs that receive nil
	type pi struct {
		f *types.Func
		i int
	}
	nilAt := map[pi]token.Pos{}
	for _, b := range allFuncBodies(p) {
		ast.Inspect(b.Body, func(x ast.Node) bool {
			c, ok := x.(*ast.CallExpr)
			if !ok {
				return true
			}
			f := callee(info, c)
			if f == nil || f.Pkg() != p.Types {
				return true
			}
			for i, a := range c.Args {
				if isNilIdent(info, a) {
					if _, seen := nilAt[pi{f, i}]; !seen {
						nilAt[pi{f, i}] = a.Pos()
					}
				}
			}
			return true
		})
	}
	nPairs := 0
	for k, at := range nilAt {
		d := w.decls[k.f]
		if d == nil || d.Body == nil {
			continue
		}
		var pobj types.Object
		idx := 0
		for _, fl := range d.Type.Params.List {
			for _, nm := range fl.Names {
				if idx == k.i {
					pobj = info.Defs[nm]
				}
				idx++
			}
		}
		if pobj == nil {
			continue
		}
		if _, isPtr := pobj.Type().Underlying().(*types.Pointer); !isPtr {
			continue
		}
		nPairs++
		g := buildCFG(info, d.Body)
		df := &Dataflow{G: g, Must: true, Init: Facts{}}
		df.Transfer = func(nd ast.Node, in Facts) Facts {
			if as, ok := nd.(*ast.AssignStmt); ok {
				for _, l := range as.Lhs {
					if id, ok := l.(*ast.Ident); ok && info.Uses[id] == pobj {
						return in.without("nonnil")
					}
				}
			}
			return in
		}
		df.Branch = func(leaf ast.Expr, truth bool, s Facts) Facts {
			be, ok := ast.Unparen(leaf).(*ast.BinaryExpr)
			if !ok || (be.Op != token.EQL && be.Op != token.NEQ) {
				return s
			}
			var id *ast.Ident
			if isNilIdent(info, be.Y) {
				id, _ = ast.Unparen(be.X).(*ast.Ident)
			} else if isNilIdent(info, be.X) {
				id, _ = ast.Unparen(be.Y).(*ast.Ident)
			}
			if id == nil || info.Uses[id] != pobj {
				return s
			}
			if (be.Op == token.NEQ) == truth {
				return s.with("nonnil")
			}
			return s
		}
		df.Run()
		label := funcName(k.f) + "|" + pobj.Name()
		bad := 0
		df.Walk(func(_ *cfg.Block, nd ast.Node, before Facts) {
			ast.Inspect(nd, func(y ast.Node) bool {
				if _, isLit := y.(*ast.FuncLit); isLit {
					return false
				}
				deref := false
				var at ast.Node
				switch e := y.(type) {
				case *ast.StarExpr:
					if id, ok := ast.Unparen(e.X).(*ast.Ident); ok && info.Uses[id] == pobj {
						deref, at = true, e
					}
				case *ast.SelectorExpr:
					if id, ok := ast.Unparen(e.X).(*ast.Ident); ok && info.Uses[id] == pobj {
						if sel := info.Selections[e]; sel != nil {
							switch sel.Kind() {
							case types.FieldVal:
								deref, at = true, e
							case types.MethodVal:
								if m, ok := sel.Obj().(*types.Func); ok {
									if recv := m.Type().(*types.Signature).Recv(); recv != nil {
										if _, ptrRecv := recv.Type().(*types.Pointer); !ptrRecv || sel.Indirect() {
											deref, at = true, e
										}
									}
								}
							}
						}
					}
				}
				if !deref {
					return true
				}
				st := df.withinExprState(nd, at, before)
				if !st["nonnil"] {
					bad++
					w.violation("nil-param-deref|"+label+"|"+types.ExprString(at.(ast.Expr)), at.Pos(), fmt.Sprintf("%s is dereferenced without a dominating %s != nil test, but the call at %s passes nil for it: the parser panics (caught and reported as an internal compiler error) on that input shape", pobj.Name(), pobj.Name(), w.pos(at0(nilAt[k], at))))
				}
				return true
			})
		})
		if bad == 0 {
			w.ok("nil-param-deref|"+label, d.Pos(), fmt.Sprintf("every dereference of %s is dominated by a nil test (nil is passed at %s)", pobj.Name(), w.pos(at)))
		}
	}
	w.floor("(function, pointer parameter) pairs of experimental/parser that receive a literal nil", nPairs, 2)
}

func at0(p token.Pos, _ ast.Node) token.Pos { return p }

// RV4 (C29): consumed text is never dropped. The lexer methods that advance the cursor and hand
// back the text they consumed (computed: methods of *lexer that assign the cursor and return a
// string) are the only record of those bytes; a token is later pushed with the length of that
// text. A variable holding such a result must not be overwritten before it has been read:
// otherwise the bytes the cursor already passed are pushed by nobody and every later token is
// shifted (tokens no longer tile the input). May-dataflow: fact "unread:v" from `v := l.take…()`,
// killed by any read of v; an assignment to v with the fact alive is a violation.
func rv4ConsumedTextNotDropped(w *World) {
	w.rule("RV4")
	const rel = "experimental/internal/lexer"
	p := w.pkg(rel)
	cursorFld := w.field(rel, "lexer", "cursor")
	if p == nil || cursorFld == nil {
		return
	}
	info := p.TypesInfo
	// consuming methods
	consuming := map[*types.Func]bool{}
	for _, b := range allFuncBodies(p) {
		if b.Lit != nil || b.Decl.Recv == nil {
			continue
		}
		sig := b.Obj.Type().(*types.Signature)
		if sig.Results().Len() == 0 {
			continue
		}
		if bt, ok := sig.Results().At(0).Type().Underlying().(*types.Basic); !ok || bt.Info()&types.IsString == 0 {
			continue
		}
		advances := false
		ast.Inspect(b.Body, func(x ast.Node) bool {
			switch s := x.(type) {
			case *ast.AssignStmt:
				for _, l := range s.Lhs {
					if selField(info, l) == cursorFld {
						advances = true
					}
				}
			case *ast.IncDecStmt:
				if selField(info, s.X) == cursorFld {
					advances = true
				}
			case *ast.CallExpr:
				if f := callee(info, s); f != nil && f.Name() == "pop" {
					advances = true
				}
			}
			return true
		})
		if advances {
			consuming[b.Obj] = true
		}
	}
	w.floor("cursor-advancing text-returning lexer methods", len(consuming), 3)
	nSites, nBad := 0, 0
	for _, b := range allFuncBodies(p) {
		if b.Lit != nil {
			continue
		}
		has := false
		ast.Inspect(b.Body, func(x ast.Node) bool {
			if c, ok := x.(*ast.CallExpr); ok {
				if f := callee(info, c); f != nil && consuming[f] {
					has = true
				}
			}
			return true
		})
		if !has {
			continue
		}
		consumedInto := func(nd ast.Node) (types.Object, bool) {
			as, ok := nd.(*ast.AssignStmt)
			if !ok || len(as.Rhs) != 1 || len(as.Lhs) < 1 {
				return nil, false
			}
			c, ok := ast.Unparen(as.Rhs[0]).(*ast.CallExpr)
			if !ok {
				return nil, false
			}
			f := callee(info, c)
			if f == nil || !consuming[f] {
				return nil, false
			}
			id, ok := as.Lhs[0].(*ast.Ident)
			if !ok || id.Name == "_" {
				return nil, false
			}
			o := info.Defs[id]
			if o == nil {
				o = info.Uses[id]
			}
			return o, o != nil
		}
		g := buildCFG(info, b.Body)
		df := &Dataflow{G: g, Must: false, Init: Facts{}}
		reads := func(nd ast.Node, skipLhs bool) map[types.Object]bool {
			out := map[types.Object]bool{}
			var lhs map[*ast.Ident]bool
			if as, ok := nd.(*ast.AssignStmt); ok && skipLhs {
				lhs = map[*ast.Ident]bool{}
				for _, l := range as.Lhs {
					if id, ok := l.(*ast.Ident); ok {
						lhs[id] = true
					}
				}
			}
			ast.Inspect(nd, func(y ast.Node) bool {
				if id, ok := y.(*ast.Ident); ok && !lhs[id] {
					if o := info.Uses[id]; o != nil {
						out[o] = true
					}
				}
				return true
			})
			return out
		}
		df.Transfer = func(nd ast.Node, in Facts) Facts {
			out := in
			for o := range reads(nd, true) {
				out = out.without("unread:" + o.Name())
			}
			if o, ok := consumedInto(nd); ok {
				out = out.with("unread:" + o.Name())
			}
			return out
		}
		// `text, ok := l.seek…()`: on the !ok edge nothing was consumed
		okOf := map[types.Object]types.Object{}
		ast.Inspect(b.Body, func(x ast.Node) bool {
			if as, isAs := x.(*ast.AssignStmt); isAs && len(as.Lhs) == 2 {
				if o, isCons := consumedInto(as); isCons {
					if id, isId := as.Lhs[1].(*ast.Ident); isId && id.Name != "_" {
						k := info.Defs[id]
						if k == nil {
							k = info.Uses[id]
						}
						if k != nil {
							okOf[k] = o
						}
					}
				}
			}
			return true
		})
		df.Branch = func(leaf ast.Expr, truth bool, s Facts) Facts {
			if id, isId := ast.Unparen(leaf).(*ast.Ident); isId && !truth {
				if o, has := okOf[info.Uses[id]]; has {
					return s.without("unread:" + o.Name())
				}
			}
			return s
		}
		df.Run()
		df.Walk(func(_ *cfg.Block, nd ast.Node, before Facts) {
			as, ok := nd.(*ast.AssignStmt)
			if !ok {
				return
			}
			rd := reads(nd, true)
			for _, l := range as.Lhs {
				id, ok := l.(*ast.Ident)
				if !ok {
					continue
				}
				o := info.Uses[id]
				if o == nil {
					o = info.Defs[id]
				}
				if o == nil {
					continue
				}
				if _, isCons := consumedInto(nd); isCons || before["unread:"+o.Name()] {
					nSites++
				}
				if as.Tok == token.DEFINE && info.Defs[id] == o {
					continue // a fresh variable instance (re-executed declaration), not an overwrite
				}
				if before["unread:"+o.Name()] && !rd[o] {
					nBad++
					w.violation("consumed-text-dropped|"+b.Label+"|"+o.Name(), as.Pos(), o.Name()+" still holds text that the cursor has already passed (returned by a cursor-advancing lexer method and not read since) when it is overwritten here: those bytes are never pushed as a token, so the token stream no longer tiles the input")
				}
			}
		})
	}
	w.floor("assignments of consumed text in the lexer", nSites, 3)
	if nBad == 0 {
		w.ok("consumed-text-dropped", token.NoPos, fmt.Sprintf("none of the %d variables assigned from a cursor-advancing method is overwritten before it is read", nSites))
	}
}

// rwExplore: exploration only (VERIF_EXPLORE=1), never registered.
func rwExplore(w *World) {
	w.rule("RIX")
	for _, rp := range w.Roots {
		loops, bad, pos := rixScan(w, rp)
		w.info("view-index|"+rp.PkgPath, 0, fmt.Sprint(loops, " loops"))
		for i, m := range bad {
			w.violation("view-index|"+m, pos[i], m)
		}
	}

	w.rule("RT3")
	for _, rp := range w.Roots {
		rt3Scan(w, rp)
	}

	constIndexGuards(w, "RWX", []string{"linker", "options", "sourceinfo", "", "internal", "protoutil", "reporter", "ast"},
		func(string) bool { return true }, map[string]string{}, 0, "exploration")
}
