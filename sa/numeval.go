package main

import (
	"go/ast"
	"go/constant"
	"go/token"
	"go/types"
)

// A tiny evaluator for side-effect-free numeric / boolean expressions over a finite environment
// (used to check predicates on every point of a small model, never to run repository code).

type num struct {
	isFloat bool
	isBool  bool
	i       int64
	f       float64
	b       bool
}

func (n num) asFloat() float64 {
	if n.isFloat {
		return n.f
	}
	return float64(n.i)
}

type numEnv struct {
	info  *types.Info
	vars  map[string]num
	lenOf func(e ast.Expr) (int64, bool) // value of len(e)
}

func (ev *numEnv) eval(e ast.Expr) (num, bool) {
	e = ast.Unparen(e)
	if v, ok := ev.vars[render(e)]; ok {
		return v, true
	}
	switch x := e.(type) {
	case *ast.BasicLit, *ast.Ident:
		if tv, ok := ev.info.Types[e]; ok && tv.Value != nil {
			switch tv.Value.Kind() {
			case constant.Int:
				v, ok := constant.Int64Val(tv.Value)
				return num{i: v}, ok
			case constant.Float:
				f, _ := constant.Float64Val(tv.Value)
				return num{isFloat: true, f: f}, true
			case constant.Bool:
				return num{isBool: true, b: constant.BoolVal(tv.Value)}, true
			}
		}
	case *ast.CallExpr:
		if isBuiltinCall(ev.info, x, "len") && len(x.Args) == 1 && ev.lenOf != nil {
			if v, ok := ev.lenOf(x.Args[0]); ok {
				return num{i: v}, true
			}
			return num{}, false
		}
		if len(x.Args) == 1 {
			if tv, ok := ev.info.Types[x.Fun]; ok && tv.IsType() {
				a, ok := ev.eval(x.Args[0])
				if !ok {
					return num{}, false
				}
				if bt, ok := tv.Type.Underlying().(*types.Basic); ok {
					if bt.Info()&types.IsFloat != 0 {
						return num{isFloat: true, f: a.asFloat()}, true
					}
					if bt.Info()&types.IsInteger != 0 {
						if a.isFloat {
							return num{i: int64(a.f)}, true
						}
						return num{i: a.i}, true
					}
				}
			}
		}
	case *ast.UnaryExpr:
		a, ok := ev.eval(x.X)
		if !ok {
			return num{}, false
		}
		switch x.Op {
		case token.NOT:
			return num{isBool: true, b: !a.b}, a.isBool
		case token.SUB:
			if a.isFloat {
				return num{isFloat: true, f: -a.f}, true
			}
			return num{i: -a.i}, true
		}
	case *ast.BinaryExpr:
		a, ok1 := ev.eval(x.X)
		if !ok1 {
			return num{}, false
		}
		if x.Op == token.LAND || x.Op == token.LOR {
			if !a.isBool {
				return num{}, false
			}
			if x.Op == token.LAND && !a.b {
				return num{isBool: true, b: false}, true
			}
			if x.Op == token.LOR && a.b {
				return num{isBool: true, b: true}, true
			}
			b, ok2 := ev.eval(x.Y)
			return num{isBool: true, b: b.b}, ok2 && b.isBool
		}
		b, ok2 := ev.eval(x.Y)
		if !ok2 {
			return num{}, false
		}
		fl := a.isFloat || b.isFloat
		switch x.Op {
		case token.ADD, token.SUB, token.MUL, token.QUO, token.REM:
			if fl {
				af, bf := a.asFloat(), b.asFloat()
				switch x.Op {
				case token.ADD:
					return num{isFloat: true, f: af + bf}, true
				case token.SUB:
					return num{isFloat: true, f: af - bf}, true
				case token.MUL:
					return num{isFloat: true, f: af * bf}, true
				case token.QUO:
					return num{isFloat: true, f: af / bf}, true
				}
				return num{}, false
			}
			switch x.Op {
			case token.ADD:
				return num{i: a.i + b.i}, true
			case token.SUB:
				return num{i: a.i - b.i}, true
			case token.MUL:
				return num{i: a.i * b.i}, true
			case token.QUO:
				if b.i == 0 {
					return num{}, false
				}
				return num{i: a.i / b.i}, true
			case token.REM:
				if b.i == 0 {
					return num{}, false
				}
				return num{i: a.i % b.i}, true
			}
		case token.AND, token.OR, token.XOR, token.AND_NOT, token.SHL, token.SHR:
			if fl || a.isBool || b.isBool {
				return num{}, false
			}
			switch x.Op {
			case token.AND:
				return num{i: a.i & b.i}, true
			case token.OR:
				return num{i: a.i | b.i}, true
			case token.XOR:
				return num{i: a.i ^ b.i}, true
			case token.AND_NOT:
				return num{i: a.i &^ b.i}, true
			case token.SHL:
				if b.i < 0 || b.i > 62 {
					return num{}, false
				}
				return num{i: a.i << uint(b.i)}, true
			case token.SHR:
				if b.i < 0 || b.i > 62 {
					return num{}, false
				}
				return num{i: a.i >> uint(b.i)}, true
			}
		case token.EQL, token.NEQ, token.LSS, token.LEQ, token.GTR, token.GEQ:
			if a.isBool || b.isBool {
				if x.Op == token.EQL {
					return num{isBool: true, b: a.b == b.b}, true
				}
				if x.Op == token.NEQ {
					return num{isBool: true, b: a.b != b.b}, true
				}
				return num{}, false
			}
			if fl {
				af, bf := a.asFloat(), b.asFloat()
				var r bool
				switch x.Op {
				case token.EQL:
					r = af == bf
				case token.NEQ:
					r = af != bf
				case token.LSS:
					r = af < bf
				case token.LEQ:
					r = af <= bf
				case token.GTR:
					r = af > bf
				case token.GEQ:
					r = af >= bf
				}
				return num{isBool: true, b: r}, true
			}
			r, ok := cmpInt(x.Op, a.i, b.i)
			return num{isBool: true, b: r}, ok
		}
	}
	return num{}, false
}
