package main

import (
	"fmt"
	"go/ast"
	"go/token"
	"go/types"
	"sort"
	"strings"

	"golang.org/x/tools/go/cfg"
)

// Rules added in the second round of seeded defects.

// RC11 (C07): only "not found" falls through to the next import path. SourceResolver tries each
// import path in turn; a failed attempt may be followed by another attempt only when the failure
// is established to be fs.ErrNotExist. Any other accessor failure (I/O error, permission) must be
// returned: otherwise a same-named file under a later import path is compiled instead and the
// fault is swallowed. May-dataflow over the CFG of FindFileByPath: fact "unresolved" is generated
// by each attempt (assignment from accessFile / the Accessor), killed on the `err == nil` edge and
// on the true edge of errors.Is(err, fs.ErrNotExist) (os.ErrNotExist is the same value); a new
// attempt, or a return with a nil error, reached with the fact alive is a violation.
func rc11NotFoundFallsThrough(w *World) {
	w.rule("RC")
	fr := w.fn("", "(*SourceResolver).FindFileByPath")
	acc := w.fn("", "(*SourceResolver).accessFile")
	if fr == nil || acc == nil {
		return
	}
	info := fr.Pkg.TypesInfo
	isAttempt := func(n ast.Node) (errName string, ok bool) {
		as, isAs := n.(*ast.AssignStmt)
		if !isAs || len(as.Rhs) != 1 || len(as.Lhs) != 2 {
			return "", false
		}
		c, isC := ast.Unparen(as.Rhs[0]).(*ast.CallExpr)
		if !isC {
			return "", false
		}
		f := callee(info, c)
		if f != nil && f == acc.Obj {
			return render(as.Lhs[1]), true
		}
		// direct use of the Accessor field
		if sel, isSel := ast.Unparen(c.Fun).(*ast.SelectorExpr); isSel && sel.Sel.Name == "Accessor" {
			return render(as.Lhs[1]), true
		}
		return "", false
	}
	g := buildCFG(info, fr.Decl.Body)
	d := &Dataflow{G: g, Must: false, Init: Facts{}}
	d.Transfer = func(n ast.Node, in Facts) Facts {
		if en, ok := isAttempt(n); ok {
			out := Facts{}
			for k := range in {
				if !strings.HasPrefix(k, "unresolved:") {
					out[k] = true
				}
			}
			out["unresolved:"+en] = true
			return out
		}
		return in
	}
	d.Branch = func(leaf ast.Expr, truth bool, s Facts) Facts {
		switch x := ast.Unparen(leaf).(type) {
		case *ast.BinaryExpr:
			if (x.Op == token.EQL || x.Op == token.NEQ) && isNilIdent(info, x.Y) {
				isNil := (x.Op == token.EQL) == truth
				if isNil {
					return s.without("unresolved:" + render(x.X))
				}
			}
		case *ast.CallExpr:
			if f := callee(info, x); f != nil && f.Pkg() != nil && f.Pkg().Path() == "errors" && f.Name() == "Is" && len(x.Args) == 2 && truth {
				if sel, ok := ast.Unparen(x.Args[1]).(*ast.SelectorExpr); ok && sel.Sel.Name == "ErrNotExist" {
					return s.without("unresolved:" + render(x.Args[0]))
				}
			}
		}
		return s
	}
	d.Run()
	attempts, bad := 0, 0
	d.Walk(func(b *cfg.Block, n ast.Node, before Facts) {
		if _, ok := isAttempt(n); ok {
			attempts++
			for k := range before {
				if strings.HasPrefix(k, "unresolved:") {
					bad++
					w.violation("RC11|SourceResolver.FindFileByPath|failure-falls-through", n.Pos(), "a further import path is tried although the previous attempt may have failed with an error other than fs.ErrNotExist ("+strings.TrimPrefix(k, "unresolved:")+" neither nil nor established not-exist on some path to here): an I/O or permission failure is masked by a same-named file under a later import path and Compile succeeds with the wrong file")
				}
			}
		}
		if r, ok := n.(*ast.ReturnStmt); ok && len(r.Results) == 2 && isNilIdent(info, r.Results[1]) {
			for k := range before {
				if strings.HasPrefix(k, "unresolved:") {
					bad++
					w.violation("RC11|SourceResolver.FindFileByPath|nil-error-return-after-failure", r.Pos(), "returns a nil error on a path where "+strings.TrimPrefix(k, "unresolved:")+" may hold an accessor failure")
				}
			}
		}
	})
	w.floor("accessor attempts in SourceResolver.FindFileByPath", attempts, 2)
	if bad == 0 {
		w.ok("RC11|SourceResolver.FindFileByPath|failure-falls-through", fr.Decl.Pos(), fmt.Sprintf("each of the %d accessor attempts is followed by another attempt only on paths where its error is nil or established to be fs.ErrNotExist", attempts))
	}
}

// RM2 (C09): the compiler's source-info configuration is applied where all input forms have
// converged. A file may reach the compiler as source, AST, parse result or descriptor proto; the
// form-specific code (task.asFile's dispatch, task.asParseResult) only converts between forms, and
// everything that depends on Compiler.SourceInfoMode happens in task.link, which every form passes
// through. A read of SourceInfoMode anywhere else makes the output depend on the input form. The
// common path must also still drop source info under SourceInfoNone.
func rm2SourceInfoModeConfinement(w *World) {
	w.rule("RM2")
	p := w.pkg("")
	fld := w.field("", "Compiler", "SourceInfoMode")
	link := w.fn("", "(*task).link")
	if p == nil || fld == nil || link == nil {
		return
	}
	info := p.TypesInfo
	// functions on the path common to all input forms: task.link itself and, transitively, every
	// function of the package all of whose static call sites are inside such a function (helpers
	// extracted from task.link)
	common := map[*types.Func]bool{link.Obj: true}
	callSites := map[*types.Func][]*types.Func{} // callee -> enclosing functions of its call sites
	for _, b := range allFuncBodies(p) {
		if b.Lit != nil {
			continue
		}
		ast.Inspect(b.Body, func(x ast.Node) bool {
			switch e := x.(type) {
			case *ast.CallExpr:
				if f := callee(info, e); f != nil && f.Pkg() == p.Types {
					callSites[f.Origin()] = append(callSites[f.Origin()], b.Obj)
				}
			case *ast.Ident:
				// a function used as a value (not called) may be invoked from anywhere
				if f, ok := info.Uses[e].(*types.Func); ok && f.Pkg() == p.Types {
					if par, isCall := parentOfIdentIsCallFun(b.Decl, e); !isCall {
						_ = par
						callSites[f.Origin()] = append(callSites[f.Origin()], nil)
					}
				}
			}
			return true
		})
	}
	for changed := true; changed; {
		changed = false
		for f, sites := range callSites {
			if common[f] || len(sites) == 0 {
				continue
			}
			all := true
			for _, s := range sites {
				if s == nil || !common[s] {
					all = false
				}
			}
			if all {
				common[f] = true
				changed = true
			}
		}
	}
	n := 0
	for _, b := range allFuncBodies(p) {
		if b.Lit != nil {
			continue
		}
		ast.Inspect(b.Body, func(x ast.Node) bool {
			sel, ok := x.(*ast.SelectorExpr)
			if !ok || selField(info, sel) != fld {
				return true
			}
			n++
			key := "source-info-mode-reader|" + b.Label
			switch {
			case b.Obj == link.Obj:
				w.ok(key, sel.Pos(), "SourceInfoMode is read in task.link, the path common to all input forms")
			case common[b.Obj]:
				w.ok(key, sel.Pos(), "SourceInfoMode is read in "+b.Label+", which is only ever called from task.link (or its helpers)")
			default:
				w.violation(key, sel.Pos(), "Compiler.SourceInfoMode is read in "+b.Label+", which is not on the path common to all input forms (task.link and the helpers only it calls): source info handling then depends on whether the resolver supplied source, an AST, a parse result or a descriptor proto")
			}
			return true
		})
	}
	w.floor("reads of Compiler.SourceInfoMode", n, 3)
	// the strip under SourceInfoNone exists in task.link
	found := false
	var commonBodies []ast.Node
	for f := range common {
		if d := w.decls[f]; d != nil && d.Body != nil {
			commonBodies = append(commonBodies, d.Body)
		}
	}
	inspectAll := func(fn func(ast.Node) bool) {
		for _, b := range commonBodies {
			ast.Inspect(b, fn)
		}
	}
	inspectAll(func(x ast.Node) bool {
		check := func(cond ast.Expr, body *ast.BlockStmt) {
			// the guard must be the mode test itself (`mode == SourceInfoNone`, a `case
			// SourceInfoNone` of a switch on the mode, or a disjunction containing one): a
			// conjunction with a further restriction strips only some input forms
			var isNoneTest func(e ast.Expr) bool
			isNoneTest = func(e ast.Expr) bool {
				e = ast.Unparen(e)
				switch t := e.(type) {
				case *ast.BinaryExpr:
					if t.Op == token.EQL {
						return strings.HasSuffix(types.ExprString(t.X), "SourceInfoNone") || strings.HasSuffix(types.ExprString(t.Y), "SourceInfoNone")
					}
					if t.Op == token.LOR {
						return isNoneTest(t.X) || isNoneTest(t.Y)
					}
					return false
				case *ast.Ident, *ast.SelectorExpr:
					return strings.HasSuffix(types.ExprString(e), "SourceInfoNone")
				}
				return false
			}
			if !isNoneTest(cond) {
				return
			}
			for _, st := range body.List {
				if as, ok := st.(*ast.AssignStmt); ok && len(as.Lhs) == 1 && len(as.Rhs) == 1 {
					if s, ok := ast.Unparen(as.Lhs[0]).(*ast.SelectorExpr); ok && s.Sel.Name == "SourceCodeInfo" && isNilIdent(info, as.Rhs[0]) {
						found = true
					}
				}
			}
		}
		// the switch form: `switch { case mode == SourceInfoNone: … }` or `switch mode { case SourceInfoNone: … }`
		if cc, ok := x.(*ast.CaseClause); ok {
			for _, e := range cc.List {
				check(e, &ast.BlockStmt{List: cc.Body})
			}
			return true
		}
		ifs, ok := x.(*ast.IfStmt)
		if !ok {
			return true
		}
		check(ifs.Cond, ifs.Body)
		if ei, ok := ifs.Else.(*ast.IfStmt); ok {
			check(ei.Cond, ei.Body)
		}
		return true
	})
	if found {
		w.ok("source-info-none-strip|task.link", link.Decl.Pos(), "task.link clears SourceCodeInfo under SourceInfoNone for every input form")
	} else {
		w.violation("source-info-none-strip|task.link", link.Decl.Pos(), "task.link no longer clears SourceCodeInfo when SourceInfoMode == SourceInfoNone: a parse result or descriptor proto that already carries source info keeps it while the source and AST forms of the same file do not")
	}
}

// RQ9 (C13): column arithmetic of FileInfo.SourcePos. "The column is one plus the number of
// characters since the line start, a tab advancing to the next multiple of eight": every update of
// the column accumulator in SourcePos must be
//   - a unit step (col++ / col += 1) taken under a test that identifies a character start
//     (utf8.RuneStart, or a range over a string / utf8.DecodeRune loop), or
//   - a tab step whose new value, *evaluated* for col = 0..63 (and any character-count operand
//     0..9), is the next multiple of eight after col(+count).
//
// Operands of an update are classified by their origin: the accumulator itself, constants,
// character counts (utf8.RuneCount*), or byte distances (len, bytes/strings.Index*, differences of
// offsets); a byte distance in a column update is a violation (multi-byte characters before a tab
// would shift every later column), anything else is undecided.
func rq9ColumnArithmetic(w *World) {
	w.rule("RQ9")
	fr := w.fn("ast", "(*FileInfo).SourcePos")
	if fr == nil {
		return
	}
	info := fr.Pkg.TypesInfo
	// the accumulator: the variable used in the returned SourcePos literal's Col field
	var colObj types.Object
	ast.Inspect(fr.Decl.Body, func(x ast.Node) bool {
		if kv, ok := x.(*ast.KeyValueExpr); ok && render(kv.Key) == "Col" {
			ast.Inspect(kv.Value, func(y ast.Node) bool {
				if id, ok := y.(*ast.Ident); ok {
					if v, ok := info.Uses[id].(*types.Var); ok && colObj == nil {
						colObj = v
					}
				}
				return true
			})
		}
		return true
	})
	if colObj == nil {
		w.undecided("column|accumulator", fr.Decl.Pos(), "cannot find the variable feeding SourcePos.Col")
		return
	}
	col := colObj.Name()
	parents := parentMap(fr.Decl)
	// local definitions (single assignment) for operand classification
	defs := map[types.Object][]ast.Expr{}
	ast.Inspect(fr.Decl.Body, func(x ast.Node) bool {
		if as, ok := x.(*ast.AssignStmt); ok && len(as.Lhs) == len(as.Rhs) {
			for i, l := range as.Lhs {
				if id, ok := l.(*ast.Ident); ok {
					o := info.Defs[id]
					if o == nil {
						o = info.Uses[id]
					}
					if o != nil {
						defs[o] = append(defs[o], as.Rhs[i])
					}
				}
			}
		}
		return true
	})
	var classify func(e ast.Expr, depth int) string // "col" | "const" | "chars" | "bytes" | "unknown"
	worst := func(a, b string) string {
		rank := map[string]int{"const": 0, "col": 1, "chars": 2, "unknown": 3, "bytes": 4}
		if rank[a] >= rank[b] {
			return a
		}
		return b
	}
	classify = func(e ast.Expr, depth int) string {
		e = ast.Unparen(e)
		if tv, ok := info.Types[e]; ok && tv.Value != nil {
			return "const"
		}
		if depth > 4 {
			return "unknown"
		}
		switch x := e.(type) {
		case *ast.Ident:
			o := info.Uses[x]
			if o == colObj {
				return "col"
			}
			rs := defs[o]
			if len(rs) == 0 {
				return "unknown"
			}
			c := "const"
			for _, r := range rs {
				c = worst(c, classify(r, depth+1))
			}
			return c
		case *ast.BinaryExpr:
			return worst(classify(x.X, depth+1), classify(x.Y, depth+1))
		case *ast.UnaryExpr:
			return classify(x.X, depth+1)
		case *ast.CallExpr:
			if isBuiltinCall(info, x, "len") {
				return "bytes"
			}
			if tv, ok := info.Types[x.Fun]; ok && tv.IsType() && len(x.Args) == 1 {
				return classify(x.Args[0], depth+1)
			}
			if f := callee(info, x); f != nil && f.Pkg() != nil {
				switch {
				case f.Pkg().Path() == "unicode/utf8" && strings.HasPrefix(f.Name(), "RuneCount"):
					return "chars"
				case (f.Pkg().Path() == "bytes" || f.Pkg().Path() == "strings") && (strings.HasPrefix(f.Name(), "Index") || strings.HasPrefix(f.Name(), "LastIndex") || f.Name() == "Count"):
					return "bytes"
				}
			}
			return "unknown"
		case *ast.IndexExpr, *ast.SelectorExpr:
			return "bytes" // f.lines[i], offsets: byte positions
		}
		return "unknown"
	}
	charStartGuard := func(n ast.Node) bool {
		for cur := parents[n]; cur != nil; cur = parents[cur] {
			switch x := cur.(type) {
			case *ast.IfStmt:
				found := false
				ast.Inspect(x.Cond, func(y ast.Node) bool {
					if c, ok := y.(*ast.CallExpr); ok {
						if f := callee(info, c); f != nil && f.Pkg() != nil && f.Pkg().Path() == "unicode/utf8" && (f.Name() == "RuneStart") {
							found = true
						}
					}
					return true
				})
				if found {
					return true
				}
			case *ast.RangeStmt:
				if t := info.TypeOf(x.X); t != nil {
					if bt, ok := t.Underlying().(*types.Basic); ok && bt.Info()&types.IsString != 0 {
						return true // range over a string iterates characters
					}
				}
			case *ast.FuncDecl:
				return false
			}
		}
		return false
	}
	nUpd := 0
	report := func(n ast.Node, newVal ast.Expr, unit bool) {
		nUpd++
		key := "column-update|" + types.ExprString(newVal)
		if unit {
			if charStartGuard(n) {
				w.ok(key, n.Pos(), "unit step taken once per character start")
			} else {
				w.violation(key, n.Pos(), "the column is incremented by one outside a character-start test: a multi-byte character would count once per byte")
			}
			return
		}
		// classify operands
		cls := classify(newVal, 0)
		switch cls {
		case "bytes":
			w.violation(key, n.Pos(), "the new column "+types.ExprString(newVal)+" depends on a byte distance (len / Index / offset): multi-byte characters before a tab shift every later column on the line")
			return
		case "unknown":
			w.undecided(key, n.Pos(), "cannot classify the operands of the column update "+types.ExprString(newVal))
			return
		}
		// finite-model evaluation: next multiple of eight
		var countVars []string
		ast.Inspect(newVal, func(y ast.Node) bool {
			if id, ok := y.(*ast.Ident); ok {
				if o := info.Uses[id]; o != nil && o != colObj {
					if _, isVar := o.(*types.Var); isVar {
						if tv, ok := info.Types[id]; !ok || tv.Value == nil {
							countVars = append(countVars, id.Name)
						}
					}
				}
			}
			return true
		})
		sort.Strings(countVars)
		bad := ""
		for c := int64(0); c < 64 && bad == ""; c++ {
			for k := int64(0); k < 10 && bad == ""; k++ {
				env := &numEnv{info: info, vars: map[string]num{col: {i: c}}}
				extra := int64(0)
				okEnv := true
				for _, v := range countVars {
					// inline single-definition locals computed from col (e.g. nextTabStop := 8 - col%8)
					if o := lookupVar(info, newVal, v); o != nil && len(defs[o]) == 1 && classify(defs[o][0], 0) != "chars" {
						val, ok := env.eval(defs[o][0])
						if !ok {
							okEnv = false
							break
						}
						env.vars[v] = val
					} else {
						env.vars[v] = num{i: k}
						extra = k
					}
				}
				if !okEnv {
					bad = "cannot evaluate the update on the finite model"
					break
				}
				got, ok := env.eval(newVal)
				if !ok || got.isBool || got.isFloat {
					bad = "cannot evaluate the update on the finite model"
					break
				}
				want := ((c+extra)/8 + 1) * 8
				if got.i != want {
					bad = fmt.Sprintf("for col=%d (count=%d) the tab step yields %d, the next multiple of eight is %d", c, extra, got.i, want)
				}
				if len(countVars) == 0 {
					break
				}
			}
		}
		if bad == "" {
			w.ok(key, n.Pos(), "tab step evaluated for col 0..63: always the next multiple of eight")
		} else {
			w.violation(key, n.Pos(), "tab step "+types.ExprString(newVal)+": "+bad)
		}
	}
	ast.Inspect(fr.Decl.Body, func(x ast.Node) bool {
		switch s := x.(type) {
		case *ast.IncDecStmt:
			if id, ok := ast.Unparen(s.X).(*ast.Ident); ok && info.Uses[id] == colObj {
				if s.Tok == token.INC {
					report(s, &ast.BinaryExpr{X: id, Op: token.ADD, Y: &ast.BasicLit{Kind: token.INT, Value: "1"}}, true)
				} else {
					w.violation("column-update|decrement", s.Pos(), "the column is decremented")
				}
			}
		case *ast.AssignStmt:
			if len(s.Lhs) != 1 || len(s.Rhs) != 1 {
				return true
			}
			id, ok := ast.Unparen(s.Lhs[0]).(*ast.Ident)
			if !ok || (info.Uses[id] != colObj) {
				return true
			}
			switch s.Tok {
			case token.ADD_ASSIGN:
				if tv, ok := info.Types[s.Rhs[0]]; ok && tv.Value != nil && tv.Value.String() == "1" {
					report(s, &ast.BinaryExpr{X: id, Op: token.ADD, Y: s.Rhs[0]}, true)
				} else {
					report(s, &ast.BinaryExpr{X: id, Op: token.ADD, Y: s.Rhs[0]}, false)
				}
			case token.ASSIGN:
				report(s, s.Rhs[0], false)
			default:
				w.undecided("column-update|"+s.Tok.String(), s.Pos(), "unrecognised column update operator")
			}
		}
		return true
	})
	w.floor("column updates in FileInfo.SourcePos", nUpd, 2)
}

func lookupVar(info *types.Info, root ast.Node, name string) types.Object {
	var out types.Object
	ast.Inspect(root, func(y ast.Node) bool {
		if id, ok := y.(*ast.Ident); ok && id.Name == name && out == nil {
			out = info.Uses[id]
		}
		return true
	})
	return out
}

// parentOfIdentIsCallFun reports whether identifier id (somewhere under root) is the function
// position of a call expression (possibly through a selector: recv.id(...)).
func parentOfIdentIsCallFun(root ast.Node, id *ast.Ident) (ast.Node, bool) {
	var res ast.Node
	found := false
	ast.Inspect(root, func(x ast.Node) bool {
		c, ok := x.(*ast.CallExpr)
		if !ok {
			return true
		}
		switch f := ast.Unparen(c.Fun).(type) {
		case *ast.Ident:
			if f == id {
				res, found = c, true
			}
		case *ast.SelectorExpr:
			if f.Sel == id {
				res, found = c, true
			}
		case *ast.IndexExpr:
			if fi, ok := ast.Unparen(f.X).(*ast.Ident); ok && fi == id {
				res, found = c, true
			}
			if fs, ok := ast.Unparen(f.X).(*ast.SelectorExpr); ok && fs.Sel == id {
				res, found = c, true
			}
		}
		return !found
	})
	return res, found
}
