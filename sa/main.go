// verifsa: repository-specific static analyser deciding structural clauses of the
// properties in /verif/properties.jsonl for bufbuild/protocompile. See /verif/DESIGN.md.
package main

import (
	"encoding/json"
	"fmt"
	"os"
	"os/exec"
	"path/filepath"
	"runtime/debug"
	"sort"
	"strconv"
	"strings"
	"time"
)

// Property describes what a check runs.
type Property struct {
	ID          string
	Explanation string         // rule text printed into evidence
	NotDecided  string         // what the check does not cover
	Rules       []func(*World) // run on every tag set
	Thorough    []func(*World) // additional rules for the thorough tier (default tags only)
	Assumptions []string
}

var registry = map[string]*Property{}

func register(p *Property) { registry[p.ID] = p }

type knownFinding struct {
	Property string `json:"property"`
	Rule     string `json:"rule"`
	Key      string `json:"key"`
	What     string `json:"what"`
	Status   string `json:"status"` // open | fixed
	Commit   string `json:"commit,omitempty"`
	// AlsoRevert lists later fix commits (newest first) that must be reverted together with Commit
	// for the defect to be observable again (a later repair made the broken code unreachable, or
	// touches the same lines).
	AlsoRevert []string `json:"also_revert,omitempty"`
}

func verifDir() string {
	if d := os.Getenv("VERIF_DIR"); d != "" {
		return d
	}
	return "/verif"
}

func loadKnown() ([]knownFinding, error) {
	b, err := os.ReadFile(filepath.Join(verifDir(), "known_findings.json"))
	if err != nil {
		return nil, err
	}
	var k struct {
		Findings []knownFinding `json:"findings"`
	}
	if err := json.Unmarshal(b, &k); err != nil {
		return nil, err
	}
	return k.Findings, nil
}

func main() {
	if len(os.Args) < 2 {
		usage()
	}
	switch os.Args[1] {
	case "check":
		if len(os.Args) < 3 {
			usage()
		}
		tier := "quick"
		if len(os.Args) > 3 {
			tier = os.Args[3]
		}
		os.Exit(runCheck(os.Args[2], tier))
	case "replay":
		if len(os.Args) < 3 {
			usage()
		}
		os.Exit(runReplay(os.Args[2]))
	case "scan":
		os.Exit(runScan(os.Args[2:]))
	case "list":
		ids := make([]string, 0, len(registry))
		for id := range registry {
			ids = append(ids, id)
		}
		sort.Strings(ids)
		fmt.Println(strings.Join(ids, " "))
	default:
		usage()
	}
}

// scan mode (development aid used by tools/fp_check.sh and tools/refresh_seeds.py): the tree is
// loaded once and the quick rules of every named property are run on it; one line per property,
// no evidence is written. Registered checks never use it.
var (
	scanMode   bool
	worldCache = map[string]*World{}
)

func runScan(ids []string) int {
	scanMode = true
	known, kerr := loadKnown()
	rc := 0
	for _, id := range ids {
		prop := registry[id]
		if prop == nil {
			fmt.Printf("%s ERROR unknown property\n", id)
			rc = 2
			continue
		}
		obls, _, err := runRules(prop, "quick")
		if err != nil || kerr != nil {
			fmt.Printf("%s ERROR %v %v\n", id, err, kerr)
			rc = 2
			continue
		}
		openKnown := map[string]bool{}
		for _, k := range known {
			if k.Property == id && k.Status == "open" {
				openKnown[k.Key] = true
			}
		}
		var bad []Obligation
		for _, o := range obls {
			switch o.Verdict {
			case VInfo, VOK:
			case VViolation:
				if !openKnown[o.Key] {
					bad = append(bad, o)
				}
			default:
				bad = append(bad, o)
			}
		}
		if len(bad) == 0 {
			fmt.Printf("%s quiet\n", id)
			continue
		}
		if rc == 0 {
			rc = 1
		}
		fmt.Printf("%s ALARM %d\n", id, len(bad))
		for i, o := range bad {
			if i == 3 {
				break
			}
			r := o.Reason
			if len(r) > 260 {
				r = r[:260]
			}
			fmt.Printf("  %s %s at %s: %s\n", strings.ToUpper(o.Verdict), o.Key, o.Pos, r)
		}
	}
	return rc
}

func usage() {
	fmt.Fprintln(os.Stderr, "usage: verifsa check <Cxx> [quick|thorough] | replay <path> | list")
	os.Exit(2)
}

func tagSets(tier string) []string {
	if tier == "thorough" {
		return []string{"", "debug", "race"}
	}
	return []string{""}
}

type evidence struct {
	PropertyID  string         `json:"property_id"`
	Tier        string         `json:"tier"`
	Seed        int            `json:"seed"`
	Level       string         `json:"level"`
	Coverage    map[string]any `json:"coverage"`
	Assumptions []string       `json:"assumptions"`
	WallS       float64        `json:"wall_s"`
	Violations  int            `json:"violations"`
}

func runRules(prop *Property, tier string) (obls []Obligation, stats map[string]any, err error) {
	stats = map[string]any{}
	funcs := map[string]bool{}
	callSites := 0
	var pkgCount []string
	for i, tags := range tagSets(tier) {
		var w *World
		if cached := worldCache[tags]; cached != nil {
			// scan mode: one load serves every property; per-run state is reset
			w = cached
			w.Obls, w.FuncsSeen, w.CallSites, w.curRule = nil, map[string]bool{}, 0, ""
		} else {
			w, err = Load(repoDir(), tags)
			if err != nil {
				return nil, nil, err
			}
			if scanMode {
				worldCache[tags] = w
			}
		}
		func() {
			defer func() {
				if p := recover(); p != nil {
					w.rule("engine")
					w.undecided("panic", 0, fmt.Sprintf("analyser panicked (treated as undecided, never as pass): %v\n%s", p, debug.Stack()))
				}
			}()
			for _, r := range prop.Rules {
				r(w)
			}
			if tier == "thorough" && i == 0 {
				for _, r := range prop.Thorough {
					r(w)
				}
			}
		}()
		obls = append(obls, w.Obls...)
		for f := range w.FuncsSeen {
			funcs[f] = true
		}
		callSites += w.CallSites
		pkgCount = append(pkgCount, fmt.Sprintf("tags=%q: %d module packages / %d total, loaded in %.1fs", tags, len(w.Roots), len(w.ByPath), w.LoadSeconds))
	}
	fl := make([]string, 0, len(funcs))
	for f := range funcs {
		fl = append(fl, f)
	}
	sort.Strings(fl)
	stats["packages"] = pkgCount
	stats["functions_analysed"] = len(fl)
	stats["functions"] = fl
	stats["call_sites"] = callSites
	return obls, stats, nil
}

func runCheck(id, tier string) int {
	t0 := time.Now()
	prop := registry[id]
	if prop == nil {
		fmt.Fprintf(os.Stderr, "unknown property %s\n", id)
		return 2
	}
	if tier != "quick" && tier != "thorough" {
		fmt.Fprintf(os.Stderr, "unknown tier %s\n", tier)
		return 2
	}
	seed, _ := strconv.Atoi(os.Getenv("VERIF_SEED"))
	known, kerr := loadKnown()
	obls, stats, err := runRules(prop, tier)
	if err != nil || kerr != nil {
		msg := fmt.Sprint(err, kerr)
		obls = append(obls, Obligation{Rule: "engine", Key: "engine|load", Verdict: VUndecided, Reason: msg, Nontrivial: true})
		if stats == nil {
			stats = map[string]any{}
		}
	}

	// dedupe obligations across tag sets by key+verdict (keep first), but keep violations from any tag set.
	seen := map[string]bool{}
	var uniq []Obligation
	for _, o := range obls {
		k := o.Key + "\x00" + o.Verdict + "\x00" + o.Pos
		if seen[k] {
			continue
		}
		seen[k] = true
		uniq = append(uniq, o)
	}
	obls = uniq

	openKnown := map[string]knownFinding{}
	for _, k := range known {
		if k.Property == id && k.Status == "open" {
			openKnown[k.Key] = k
		}
	}
	var bad []Obligation
	matched := map[string]bool{}
	discharged, total, nontriv := 0, 0, map[string]bool{}
	for _, o := range obls {
		if o.Verdict == VInfo {
			continue
		}
		total++
		if o.Nontrivial {
			nontriv[o.Key] = true
		}
		switch o.Verdict {
		case VOK:
			discharged++
		case VViolation:
			if k, ok := openKnown[o.Key]; ok {
				if !matched[o.Key] {
					fmt.Printf("KNOWN-FINDING: property=%s %s [%s at %s]\n", id, k.What, o.Key, o.Pos)
				}
				matched[o.Key] = true
			} else {
				bad = append(bad, o)
			}
		default:
			bad = append(bad, o)
		}
	}

	// print a human-readable account
	fmt.Printf("verifsa %s tier=%s: %d obligations, %d discharged, %d known finding(s), %d unlisted violation(s)/undecided; %v\n",
		id, tier, total, discharged, len(matched), len(bad), stats["packages"])
	ruleCount := map[string][2]int{}
	for _, o := range obls {
		if o.Verdict == VInfo {
			continue
		}
		c := ruleCount[o.Rule]
		c[0]++
		if o.Verdict == VOK {
			c[1]++
		}
		ruleCount[o.Rule] = c
	}
	var rnames []string
	for r := range ruleCount {
		rnames = append(rnames, r)
	}
	sort.Strings(rnames)
	for _, r := range rnames {
		fmt.Printf("  rule %-8s %3d obligations, %3d ok\n", r, ruleCount[r][0], ruleCount[r][1])
	}
	if lr := os.Getenv("VERIF_LIST"); lr != "" {
		// debugging aid: list every obligation of the named rule (or "all")
		for _, o := range obls {
			if lr == "all" || o.Rule == lr {
				fmt.Printf("    [%s] %s at %s: %s\n", o.Verdict, o.Key, o.Pos, o.Reason)
			}
		}
	}

	exit := 0
	replayDir := filepath.Join(verifDir(), "replays")
	for i, o := range bad {
		_ = os.MkdirAll(replayDir, 0o755)
		path := filepath.Join(replayDir, fmt.Sprintf("%s-%d.json", id, i))
		b, _ := json.MarshalIndent(map[string]any{"property": id, "tier": tier, "obligation": o}, "", " ")
		_ = os.WriteFile(path, b, 0o644)
		fmt.Printf("  %s %s at %s: %s\n", strings.ToUpper(o.Verdict), o.Key, o.Pos, o.Reason)
		for _, wl := range o.Witness {
			fmt.Printf("      %s\n", wl)
		}
		fmt.Printf("VIOLATION property=%s replay=%s\n", id, path)
		exit = 1
	}

	// evidence
	var samples []Obligation
	perRule := map[string]int{}
	for _, o := range obls {
		if o.Verdict == VInfo {
			continue
		}
		if o.Verdict != VOK || perRule[o.Rule] < 6 {
			samples = append(samples, o)
			perRule[o.Rule]++
		}
	}
	var infos []Obligation
	for _, o := range obls {
		if o.Verdict == VInfo && len(infos) < 40 {
			infos = append(infos, o)
		}
	}
	cov := map[string]any{
		"explanation":            prop.Explanation,
		"not_decided":            prop.NotDecided,
		"obligations":            total,
		"discharged":             discharged,
		"evaluations":            total,
		"distinct_nontrivial":    len(nontriv),
		"rule":                   "one obligation per (rule, construct) instance found in the type-checked source of /repo; an obligation is non-trivial when deciding it needed a path, flow, table or call-graph argument (floor counts and anchor resolutions are trivial); distinct = distinct construct keys",
		"samples":                samples,
		"informational":          infos,
		"known_findings_matched": len(matched),
		"unlisted_violations":    len(bad),
		"build_tag_sets":         tagSets(tier),
		"checker_cmd":            "bin/verifsa check " + id + " " + tier,
		"trusted_base":           []string{"go/types (go1.26.8)", "golang.org/x/tools v0.50.0 go/packages, go/cfg, go/ssa, callgraph/vta", "rule tables in /verif/sa (printed per obligation)"},
		"exhaustive":             false,
	}
	for k, v := range stats {
		cov[k] = v
	}
	if tier == "thorough" && os.Getenv("VERIF_SELFTEST_CHILD") == "" {
		cov["detector_selftest"] = selfTest(id)
		cov["reverted_fix_selftest"] = revertedFixTest(id)
	}
	ev := evidence{PropertyID: id, Tier: tier, Seed: seed, Level: "other", Coverage: cov,
		Assumptions: append([]string{"verdicts are about the shape of /repo's current source; they decide the named structural clauses, not the full behavioural statement"}, prop.Assumptions...),
		WallS:       time.Since(t0).Seconds(), Violations: len(bad)}
	_ = os.MkdirAll(filepath.Join(verifDir(), "evidence"), 0o755)
	b, _ := json.MarshalIndent(ev, "", " ")
	if err := os.WriteFile(filepath.Join(verifDir(), "evidence", id+".json"), b, 0o644); err != nil {
		fmt.Fprintln(os.Stderr, "cannot write evidence:", err)
		return 1
	}
	return exit
}

func runReplay(path string) int {
	b, err := os.ReadFile(path)
	if err != nil {
		fmt.Fprintln(os.Stderr, err)
		return 2
	}
	var r struct {
		Property   string     `json:"property"`
		Tier       string     `json:"tier"`
		Obligation Obligation `json:"obligation"`
	}
	if err := json.Unmarshal(b, &r); err != nil {
		fmt.Fprintln(os.Stderr, err)
		return 2
	}
	prop := registry[r.Property]
	if prop == nil {
		fmt.Fprintln(os.Stderr, "unknown property in replay file")
		return 2
	}
	obls, _, err := runRules(prop, r.Tier)
	if err != nil {
		fmt.Println("undecided:", err)
		fmt.Printf("VIOLATION property=%s replay=%s\n", r.Property, path)
		return 1
	}
	found := false
	for _, o := range obls {
		if o.Key == r.Obligation.Key && o.Verdict != VOK && o.Verdict != VInfo {
			found = true
			fmt.Printf("%s %s at %s\n  %s\n", strings.ToUpper(o.Verdict), o.Key, o.Pos, o.Reason)
			for _, wl := range o.Witness {
				fmt.Printf("      %s\n", wl)
			}
		}
	}
	if found {
		fmt.Printf("VIOLATION property=%s replay=%s\n", r.Property, path)
		return 1
	}
	fmt.Printf("obligation %s is discharged (or gone) on the current tree\n", r.Obligation.Key)
	return 0
}

// selfTest (thorough tier, evidence only): every seeded defect kept under /verif/seeded for this
// property is applied to a scratch copy of the repository tree (outside /repo and /verif) and the
// property's quick analysis is run on it in a child process; it must report a violation. The copy
// is removed immediately. A patch that no longer applies is recorded as stale.
func selfTest(id string) []map[string]any {
	var out []map[string]any
	dirs, _ := filepath.Glob(filepath.Join(verifDir(), "seeded", "*", "meta.json"))
	sort.Strings(dirs)
	scratchRoot := os.Getenv("VERIF_SCRATCH")
	if scratchRoot == "" {
		scratchRoot = "/var/tmp"
	}
	for _, mf := range dirs {
		b, err := os.ReadFile(mf)
		if err != nil {
			continue
		}
		var meta struct {
			Property string `json:"property"`
			Change   string `json:"change"`
			Detected bool   `json:"detected_by_check"`
		}
		if json.Unmarshal(b, &meta) != nil || meta.Property != id {
			continue
		}
		name := filepath.Base(filepath.Dir(mf))
		rec := map[string]any{"seed": name, "change": meta.Change, "expected_detected": meta.Detected}
		scratch, err := os.MkdirTemp(scratchRoot, "verifsa-selftest-")
		if err != nil {
			rec["result"] = "error: " + err.Error()
			out = append(out, rec)
			continue
		}
		func() {
			defer os.RemoveAll(scratch)
			repoCopy := filepath.Join(scratch, "repo")
			vdir := filepath.Join(scratch, "verif")
			_ = os.MkdirAll(vdir, 0o755)
			if kb, err := os.ReadFile(filepath.Join(verifDir(), "known_findings.json")); err == nil {
				_ = os.WriteFile(filepath.Join(vdir, "known_findings.json"), kb, 0o644)
			}
			if o, err := exec.Command("rsync", "-a", "--exclude", ".git", "--exclude", ".tmp", repoDir()+"/", repoCopy+"/").CombinedOutput(); err != nil {
				rec["result"] = "error copying tree: " + string(o)
				return
			}
			pc := exec.Command("patch", "-p1", "--no-backup-if-mismatch", "-s", "-i", filepath.Join(filepath.Dir(mf), "patch.diff"))
			pc.Dir = repoCopy
			if o, err := pc.CombinedOutput(); err != nil {
				rec["result"] = "stale: patch no longer applies (" + strings.TrimSpace(string(o)) + ")"
				return
			}
			cmd := exec.Command(os.Args[0], "check", id, "quick")
			cmd.Env = append(os.Environ(), "VERIF_REPO="+repoCopy, "VERIF_DIR="+vdir, "VERIF_SELFTEST_CHILD=1")
			o, _ := cmd.CombinedOutput()
			code := cmd.ProcessState.ExitCode()
			var keys []string
			for _, line := range strings.Split(string(o), "\n") {
				line = strings.TrimSpace(line)
				if strings.HasPrefix(line, "VIOLATION ") && !strings.HasPrefix(line, "VIOLATION property=") || strings.HasPrefix(line, "UNDECIDED ") {
					f := strings.Fields(line)
					if len(f) > 1 {
						keys = append(keys, f[1])
					}
				}
			}
			rec["exit"] = code
			rec["reported"] = keys
			switch {
			case code == 1 && len(keys) > 0:
				rec["result"] = "detected"
			case code == 0:
				rec["result"] = "not detected"
			default:
				rec["result"] = fmt.Sprintf("error (exit %d)", code)
			}
		}()
		fmt.Printf("  selftest %s: %v (expected detected=%v)\n", name, rec["result"], meta.Detected)
		out = append(out, rec)
	}
	return out
}

// revertedFixTest (thorough tier, evidence only): for every `fixed` entry of known_findings.json
// of this property, the fix commit is reverted on a scratch copy of the tree (`git show <commit>`
// applied in reverse) and the quick analysis must report the entry's key again — "a fixed entry
// suppresses nothing: the check reports the violation again if it ever returns". A commit whose
// reverse patch no longer applies (later repairs touched the same lines) is recorded as stale.
func revertedFixTest(id string) []map[string]any {
	var out []map[string]any
	scratchRoot := os.Getenv("VERIF_SCRATCH")
	if scratchRoot == "" {
		scratchRoot = "/var/tmp"
	}
	byCommit := map[string][]string{}
	also := map[string][]string{}
	var commits []string
	kfs, _ := loadKnown()
	for _, k := range kfs {
		if k.Property != id || k.Status != "fixed" || k.Commit == "" {
			continue
		}
		if _, seen := byCommit[k.Commit]; !seen {
			commits = append(commits, k.Commit)
		}
		byCommit[k.Commit] = append(byCommit[k.Commit], k.Key)
		if len(k.AlsoRevert) > 0 {
			also[k.Commit] = k.AlsoRevert
		}
	}
	for _, c := range commits {
		rec := map[string]any{"commit": c, "expected_keys": byCommit[c]}
		diff, err := exec.Command("git", "-C", repoDir(), "show", "--format=", c).Output()
		if err != nil || len(diff) == 0 {
			rec["result"] = "skipped: commit not available in " + repoDir()
			out = append(out, rec)
			continue
		}
		scratch, err := os.MkdirTemp(scratchRoot, "verifsa-revert-")
		if err != nil {
			rec["result"] = "error: " + err.Error()
			out = append(out, rec)
			continue
		}
		func() {
			defer os.RemoveAll(scratch)
			repoCopy := filepath.Join(scratch, "repo")
			vdir := filepath.Join(scratch, "verif")
			_ = os.MkdirAll(vdir, 0o755)
			if kb, err := os.ReadFile(filepath.Join(verifDir(), "known_findings.json")); err == nil {
				_ = os.WriteFile(filepath.Join(vdir, "known_findings.json"), kb, 0o644)
			}
			if o, err := exec.Command("rsync", "-a", "--exclude", ".git", "--exclude", ".tmp", repoDir()+"/", repoCopy+"/").CombinedOutput(); err != nil {
				rec["result"] = "error copying tree: " + string(o)
				return
			}
			for i, ac := range also[c] {
				ad, err := exec.Command("git", "-C", repoDir(), "show", "--format=", ac).Output()
				if err != nil || len(ad) == 0 {
					rec["result"] = "skipped: commit " + ac + " not available"
					return
				}
				apf := filepath.Join(scratch, fmt.Sprintf("also%d.diff", i))
				_ = os.WriteFile(apf, ad, 0o644)
				pc := exec.Command("patch", "-p1", "-R", "--no-backup-if-mismatch", "-s", "-i", apf)
				pc.Dir = repoCopy
				if o, err := pc.CombinedOutput(); err != nil {
					rec["result"] = "stale: " + ac + " can no longer be reverted mechanically (" + strings.TrimSpace(strings.Split(string(o), "\n")[0]) + ")"
					return
				}
			}
			if len(also[c]) > 0 {
				rec["also_reverted"] = also[c]
			}
			pf := filepath.Join(scratch, "fix.diff")
			_ = os.WriteFile(pf, diff, 0o644)
			pc := exec.Command("patch", "-p1", "-R", "--no-backup-if-mismatch", "-s", "-i", pf)
			pc.Dir = repoCopy
			if o, err := pc.CombinedOutput(); err != nil {
				rec["result"] = "stale: the fix can no longer be reverted mechanically (" + strings.TrimSpace(strings.Split(string(o), "\n")[0]) + ")"
				return
			}
			cmd := exec.Command(os.Args[0], "check", id, "quick")
			cmd.Env = append(os.Environ(), "VERIF_REPO="+repoCopy, "VERIF_DIR="+vdir, "VERIF_SELFTEST_CHILD=1")
			o, _ := cmd.CombinedOutput()
			reported := map[string]bool{}
			for _, line := range strings.Split(string(o), "\n") {
				line = strings.TrimSpace(line)
				if strings.HasPrefix(line, "VIOLATION ") && !strings.HasPrefix(line, "VIOLATION property=") {
					rest := strings.TrimPrefix(line, "VIOLATION ")
					if i := strings.Index(rest, " at "); i > 0 {
						reported[rest[:i]] = true
					}
				}
			}
			missing := []string{}
			for _, k := range byCommit[c] {
				if !reported[k] {
					missing = append(missing, k)
				}
			}
			rec["exit"] = cmd.ProcessState.ExitCode()
			if len(missing) == 0 && cmd.ProcessState.ExitCode() == 1 {
				rec["result"] = "reported again"
			} else {
				rec["result"] = "NOT reported again"
				rec["missing_keys"] = missing
			}
		}()
		fmt.Printf("  reverted fix %s: %v\n", c, rec["result"])
		out = append(out, rec)
	}
	return out
}
