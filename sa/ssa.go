package main

import (
	"go/types"

	"golang.org/x/tools/go/callgraph"
	"golang.org/x/tools/go/callgraph/cha"
	"golang.org/x/tools/go/callgraph/vta"
	"golang.org/x/tools/go/ssa"
	"golang.org/x/tools/go/ssa/ssautil"
)

type ssaState struct {
	prog *ssa.Program
	pkgs []*ssa.Package
	cg   *callgraph.Graph
}

// SSA builds (once) the SSA form of the whole program.
func (w *World) SSA() *ssaState {
	if w.ssa != nil {
		return w.ssa
	}
	prog, pkgs := ssautil.AllPackages(w.Roots, ssa.InstantiateGenerics)
	prog.Build()
	w.ssa = &ssaState{prog: prog, pkgs: pkgs}
	return w.ssa
}

// CallGraph builds (once) the VTA call graph refined from CHA.
func (w *World) CallGraph() *callgraph.Graph {
	s := w.SSA()
	if s.cg == nil {
		all := ssautil.AllFunctions(s.prog)
		s.cg = vta.CallGraph(all, cha.CallGraph(s.prog))
	}
	return s.cg
}

// ssaFunc returns the SSA function for a types.Func of the module.
func (w *World) ssaFunc(f *types.Func) *ssa.Function {
	return w.SSA().prog.FuncValue(f)
}
