package main

import (
	"fmt"
	"go/ast"
	"go/token"
	"go/types"
	"sort"
	"strings"
)

// RIK (C40): key discipline of the interval collections. Both Intersect and Nesting store their
// entries in an ordered map *keyed by the entry's End*: Get and intersect Seek(point) and rely on
// "first key >= point is the End of the only entry that can contain point"; sortedness and
// pairwise disjointness of Entries() are statements about those keys. Two structural clauses are
// necessary for that:
//
//	key-is-end      every Set(k, e) on a map of *Entry stores the entry under its own End: either
//	                Set(e.End, e) for the same variable e, or Set(k, &Entry{…, End: k, …});
//	end-immutable   the End of an entry is never assigned after construction (an entry already in
//	                the tree would otherwise sit under a stale key); splitting shortens entries by
//	                moving Start and creates new entries for the cut-off part.
func rikIntervalKeys(w *World) {
	w.rule("RIK")
	p := w.pkg("internal/interval")
	ent := w.typ("internal/interval", "Entry")
	if p == nil || ent == nil {
		return
	}
	info := p.TypesInfo
	isEntryPtr := func(t types.Type) bool {
		pt, ok := t.(*types.Pointer)
		if !ok {
			return false
		}
		n, ok := pt.Elem().(*types.Named)
		return ok && n.Origin() == ent.Origin()
	}
	nSet, nEnd := 0, 0
	for _, b := range allFuncBodies(p) {
		if b.Lit != nil {
			continue // literals are visited as part of their declaration
		}
		ast.Inspect(b.Body, func(x ast.Node) bool {
			switch s := x.(type) {
			case *ast.CallExpr:
				sel, ok := ast.Unparen(s.Fun).(*ast.SelectorExpr)
				if !ok || sel.Sel.Name != "Set" || len(s.Args) != 2 {
					return true
				}
				if t := info.TypeOf(s.Args[1]); t == nil || !isEntryPtr(t) {
					return true
				}
				nSet++
				key := fmt.Sprintf("key-is-end|%s|%s", b.Label, types.ExprString(s))
				if len(key) > 160 {
					key = key[:160]
				}
				k := types.ExprString(s.Args[0])
				okKey := false
				switch v := ast.Unparen(s.Args[1]).(type) {
				case *ast.CallExpr:
					if _, e2, isCtor := entryCtorArgs(w, info, ent, v); isCtor {
						okKey = types.ExprString(e2) == k
					}
				case *ast.Ident:
					okKey = k == v.Name+".End"
				case *ast.UnaryExpr:
					if cl, ok := v.X.(*ast.CompositeLit); ok {
						for _, el := range cl.Elts {
							if kv, ok := el.(*ast.KeyValueExpr); ok && render(kv.Key) == "End" && types.ExprString(kv.Value) == k {
								okKey = true
							}
						}
					}
				}
				if okKey {
					w.ok(key, s.Pos(), "the entry is stored under its own End")
				} else {
					w.violation(key, s.Pos(), "an *Entry is stored under key "+k+", which is not (syntactically) that entry's End: lookups Seek by End, so the entry is found for the wrong points and Entries() is no longer sorted by interval")
				}
			case *ast.AssignStmt:
				for _, l := range s.Lhs {
					sl, ok := ast.Unparen(l).(*ast.SelectorExpr)
					if !ok || sl.Sel.Name != "End" {
						continue
					}
					t := info.TypeOf(sl.X)
					if t == nil {
						continue
					}
					if !isEntryPtr(t) {
						if n, ok := t.(*types.Named); !ok || n.Origin() != ent.Origin() {
							continue
						}
						// a local Entry *value* (a copy, e.g. in Contiguous) is not in the tree
						w.ok("end-immutable|"+b.Label+"|"+types.ExprString(l)+" (copy)", s.Pos(), "End of a local copy is changed, not of an entry in the tree")
						nEnd++
						continue
					}
					nEnd++
					w.violation("end-immutable|"+b.Label+"|"+types.ExprString(l), s.Pos(), "the End of an *Entry is reassigned: if the entry is in the tree it now sits under a stale key (the tree is keyed by End)")
				}
			}
			return true
		})
	}
	w.floor("Set calls storing *Entry values", nSet, 3)
	if nEnd == 0 {
		w.ok("end-immutable", ent.Obj().Pos(), "no assignment to the End of an entry anywhere in the package")
	}
	_ = strings.TrimSpace
}

// RIK2 (C40): every entry put into the intersection map is a non-empty interval. Insert cuts the
// new interval and the entries it overlaps into pieces and stores each piece as
// &Entry{Start: S, End: E, …} under the key E. A piece with S > E is empty; stored under key E it
// *replaces* whatever non-empty entry already ends at E, so the points of that entry are lost and
// Entries() is no longer a partition of the inserted intervals. For each such literal the rule
// collects its path condition — the conditions of the enclosing ifs (with polarity), the negated
// conditions of earlier early-exit guards, calls of Entry.Contains inlined from its body — and
// checks on a finite model (every integer operand ranging over -2..3, under the inductive
// assumption that entries already in the map are non-empty) that the condition implies S <= E.
// The expressions are read from the source and evaluated; no repository code runs.
func rik2NonEmptyPieces(w *World) {
	w.rule("RIK2")
	p := w.pkg("internal/interval")
	ent := w.typ("internal/interval", "Entry")
	ins := w.fn("internal/interval", "(*Intersect).Insert")
	contains := w.fn("internal/interval", "Entry.Contains")
	if p == nil || ent == nil || ins == nil {
		return
	}
	info := p.TypesInfo
	parents := parentMap(ins.Decl)
	isIntExpr := func(e ast.Expr) bool {
		t := info.TypeOf(e)
		if t == nil {
			return false
		}
		if tp, ok := t.(*types.TypeParam); ok {
			_ = tp
			return true // K Endpoint (an integer type parameter)
		}
		bt, ok := t.Underlying().(*types.Basic)
		return ok && bt.Info()&types.IsInteger != 0
	}
	terminates := func(bl *ast.BlockStmt) bool {
		if len(bl.List) == 0 {
			return false
		}
		switch s := bl.List[len(bl.List)-1].(type) {
		case *ast.ReturnStmt:
			return true
		case *ast.BranchStmt:
			return s.Tok == token.CONTINUE || s.Tok == token.BREAK
		case *ast.ExprStmt:
			if c, ok := s.X.(*ast.CallExpr); ok && isBuiltinCall(info, c, "panic") {
				return true
			}
		}
		return false
	}
	n := 0
	ast.Inspect(ins.Decl.Body, func(x ast.Node) bool {
		var S, E ast.Expr
		var cl ast.Node
		switch pc := x.(type) {
		case *ast.CompositeLit:
			t := info.TypeOf(pc)
			nt, ok := t.(*types.Named)
			if !ok || nt.Origin() != ent.Origin() {
				return true
			}
			for _, el := range pc.Elts {
				if kv, ok := el.(*ast.KeyValueExpr); ok {
					switch render(kv.Key) {
					case "Start":
						S = kv.Value
					case "End":
						E = kv.Value
					}
				}
			}
			cl = pc
		case *ast.CallExpr:
			s2, e2, isCtor := entryCtorArgs(w, info, ent, pc)
			if !isCtor {
				return true
			}
			S, E, cl = s2, e2, pc
		default:
			return true
		}
		if S == nil || E == nil {
			return true
		}
		n++
		// path condition
		type lit struct {
			e     ast.Expr
			truth bool
		}
		var conds []lit
		var child ast.Node = cl
		for cur := parents[cl]; cur != nil; child, cur = cur, parents[cur] {
			if ifs, ok := cur.(*ast.IfStmt); ok {
				if child == ast.Node(ifs.Body) {
					conds = append(conds, lit{ifs.Cond, true})
				} else if ifs.Else != nil && child == ast.Node(ifs.Else) {
					conds = append(conds, lit{ifs.Cond, false})
				}
			}
			if list, idx := containingList(parents, child); idx > 0 {
				for j := 0; j < idx; j++ {
					if g, ok := list[j].(*ast.IfStmt); ok && g.Else == nil && g.Init == nil && terminates(g.Body) {
						conds = append(conds, lit{g.Cond, false})
					}
				}
			}
		}
		// atoms: integer identifiers / field selections, nil tests as booleans
		atoms := map[string]bool{}
		entryVars := map[string]bool{} // x for which x.Start / x.End appear (entries of the map)
		boolAtoms := map[string]bool{}
		var collect func(e ast.Expr)
		collect = func(e ast.Expr) {
			ast.Inspect(e, func(y ast.Node) bool {
				switch z := y.(type) {
				case *ast.BinaryExpr:
					if (z.Op == token.EQL || z.Op == token.NEQ) && (isNilIdent(info, z.Y) || isNilIdent(info, z.X)) {
						boolAtoms[types.ExprString(z)] = true
						return false
					}
				case *ast.CallExpr:
					if sel, ok := ast.Unparen(z.Fun).(*ast.SelectorExpr); ok && sel.Sel.Name == "Contains" && len(z.Args) == 1 {
						entryVars[render(sel.X)] = true
						atoms[render(sel.X)+".Start"] = true
						atoms[render(sel.X)+".End"] = true
						collect(z.Args[0])
						return false
					}
				case *ast.SelectorExpr:
					if isIntExpr(z) {
						atoms[render(z)] = true
						if z.Sel.Name == "Start" || z.Sel.Name == "End" {
							entryVars[render(z.X)] = true
							atoms[render(z.X)+".Start"] = true
							atoms[render(z.X)+".End"] = true
						}
						return false
					}
				case *ast.Ident:
					if _, isVar := info.Uses[z].(*types.Var); isVar && isIntExpr(z) {
						atoms[z.Name] = true
					}
				}
				return true
			})
		}
		collect(S)
		collect(E)
		for _, c := range conds {
			collect(c.e)
		}
		var names []string
		for a := range atoms {
			names = append(names, a)
		}
		sort.Strings(names)
		var bnames []string
		for b := range boolAtoms {
			bnames = append(bnames, b)
		}
		sort.Strings(bnames)
		key := "non-empty-piece|" + types.ExprString(S) + ".." + types.ExprString(E)
		if len(names) > 6 {
			w.undecided(key, cl.Pos(), fmt.Sprintf("%d integer operands: finite model too large", len(names)))
			return true
		}
		// evaluator with Contains inlining and boolean atoms
		var evalB func(env *numEnv, bvals map[string]bool, e ast.Expr) (bool, bool)
		evalB = func(env *numEnv, bvals map[string]bool, e ast.Expr) (bool, bool) {
			e = ast.Unparen(e)
			if v, ok := bvals[types.ExprString(e)]; ok {
				return v, true
			}
			switch z := e.(type) {
			case *ast.BinaryExpr:
				if z.Op == token.LAND || z.Op == token.LOR {
					a, ok1 := evalB(env, bvals, z.X)
					b, ok2 := evalB(env, bvals, z.Y)
					if !ok1 || !ok2 {
						return false, false
					}
					if z.Op == token.LAND {
						return a && b, true
					}
					return a || b, true
				}
			case *ast.UnaryExpr:
				if z.Op == token.NOT {
					a, ok := evalB(env, bvals, z.X)
					return !a, ok
				}
			case *ast.CallExpr:
				if sel, ok := ast.Unparen(z.Fun).(*ast.SelectorExpr); ok && sel.Sel.Name == "Contains" && len(z.Args) == 1 && contains != nil {
					x := render(sel.X)
					pt, ok := env.eval(z.Args[0])
					if !ok {
						return false, false
					}
					s0, e0 := env.vars[x+".Start"], env.vars[x+".End"]
					return s0.i <= pt.i && pt.i <= e0.i, true
				}
			}
			v, ok := env.eval(e)
			if !ok || !v.isBool {
				return false, false
			}
			return v.b, true
		}
		dom := []int64{-2, -1, 0, 1, 2, 3}
		vals := make([]int, len(names))
		bad := ""
		undec := ""
		total := 1
		for range names {
			total *= len(dom)
		}
		for it := 0; it < total && bad == "" && undec == ""; it++ {
			k := it
			env := &numEnv{info: info, vars: map[string]num{}}
			for i := range names {
				vals[i] = k % len(dom)
				k /= len(dom)
				env.vars[names[i]] = num{i: dom[vals[i]]}
			}
			// inductive assumption: entries of the map are non-empty
			okInv := true
			for x := range entryVars {
				if env.vars[x+".Start"].i > env.vars[x+".End"].i {
					okInv = false
				}
			}
			if !okInv {
				continue
			}
			for bm := 0; bm < 1<<len(bnames) && bad == "" && undec == ""; bm++ {
				bvals := map[string]bool{}
				for i, b := range bnames {
					bvals[b] = bm&(1<<i) != 0
				}
				holds := true
				for _, c := range conds {
					v, ok := evalB(env, bvals, c.e)
					if !ok {
						undec = "cannot evaluate guard " + types.ExprString(c.e)
						break
					}
					if v != c.truth {
						holds = false
						break
					}
				}
				if undec != "" || !holds {
					continue
				}
				sv, ok1 := env.eval(S)
				ev, ok2 := env.eval(E)
				if !ok1 || !ok2 {
					undec = "cannot evaluate the bounds"
					break
				}
				if sv.i > ev.i {
					var parts []string
					for i, nm := range names {
						parts = append(parts, fmt.Sprintf("%s=%d", nm, dom[vals[i]]))
					}
					bad = fmt.Sprintf("%s gives the piece [%d, %d]", strings.Join(parts, ", "), sv.i, ev.i)
				}
			}
		}
		var gs []string
		for _, c := range conds {
			g := types.ExprString(c.e)
			if !c.truth {
				g = "!(" + g + ")"
			}
			gs = append(gs, g)
		}
		switch {
		case undec != "":
			w.undecided(key, cl.Pos(), undec)
		case bad != "":
			w.violation(key, cl.Pos(), "the guards "+strings.Join(gs, " && ")+" do not imply Start <= End for this piece: "+bad+" — an empty entry, stored under its End, replaces the non-empty entry that already ends there, so the points of that entry are lost")
		default:
			w.ok(key, cl.Pos(), fmt.Sprintf("on the finite model (%d operands over -2..3) the guards %s imply Start <= End", len(names), strings.Join(gs, " && ")))
		}
		return true
	})
	w.floor("Entry pieces created by Intersect.Insert", n, 5)
}

// entryCtorArgs: if call invokes a same-package function whose body is a single
// `return &Entry{Start: <param>, End: <param>, …}`, it returns the argument expressions that become
// Start and End (a constructor helper such as singleton(start, end, value)).
func entryCtorArgs(w *World, info *types.Info, ent *types.Named, call *ast.CallExpr) (S, E ast.Expr, ok bool) {
	f := callee(info, call)
	if f == nil {
		return nil, nil, false
	}
	d := w.decls[f.Origin()]
	if d == nil || d.Body == nil || len(d.Body.List) != 1 {
		return nil, nil, false
	}
	r, isRet := d.Body.List[0].(*ast.ReturnStmt)
	if !isRet || len(r.Results) != 1 {
		return nil, nil, false
	}
	ue, isU := ast.Unparen(r.Results[0]).(*ast.UnaryExpr)
	if !isU {
		return nil, nil, false
	}
	cl, isCL := ue.X.(*ast.CompositeLit)
	if !isCL {
		return nil, nil, false
	}
	dinfo := gInfos[f.Origin()]
	if dinfo == nil {
		return nil, nil, false
	}
	if nt, isN := dinfo.TypeOf(cl).(*types.Named); !isN || nt.Origin() != ent.Origin() {
		return nil, nil, false
	}
	paramIdx := map[string]int{}
	i := 0
	for _, fl := range d.Type.Params.List {
		for _, nm := range fl.Names {
			paramIdx[nm.Name] = i
			i++
		}
	}
	for _, el := range cl.Elts {
		kv, isKV := el.(*ast.KeyValueExpr)
		if !isKV {
			continue
		}
		id, isId := ast.Unparen(kv.Value).(*ast.Ident)
		if !isId {
			continue
		}
		pi, isP := paramIdx[id.Name]
		if !isP || pi >= len(call.Args) {
			continue
		}
		switch render(kv.Key) {
		case "Start":
			S = call.Args[pi]
		case "End":
			E = call.Args[pi]
		}
	}
	return S, E, S != nil && E != nil
}
