package main

import (
	"fmt"
	"go/ast"
	"go/types"
	"strings"
)

// RIK (C40): key discipline of the interval collections. Both Intersect and Nesting store their
// entries in an ordered map *keyed by the entry's End*: Get and intersect Seek(point) and rely on
// "first key >= point is the End of the only entry that can contain point"; sortedness and
// pairwise disjointness of Entries() are statements about those keys. Two structural clauses are
// necessary for that:
//
//	key-is-end      every Set(k, e) on a map of *Entry stores the entry under its own End: either
//	                Set(e.End, e) for the same variable e, or Set(k, &Entry{…, End: k, …});
//	end-immutable   the End of an entry is never assigned after construction (an entry already in
//	                the tree would otherwise sit under a stale key); splitting shortens entries by
//	                moving Start and creates new entries for the cut-off part.
func rikIntervalKeys(w *World) {
	w.rule("RIK")
	p := w.pkg("internal/interval")
	ent := w.typ("internal/interval", "Entry")
	if p == nil || ent == nil {
		return
	}
	info := p.TypesInfo
	isEntryPtr := func(t types.Type) bool {
		pt, ok := t.(*types.Pointer)
		if !ok {
			return false
		}
		n, ok := pt.Elem().(*types.Named)
		return ok && n.Origin() == ent.Origin()
	}
	nSet, nEnd := 0, 0
	for _, b := range allFuncBodies(p) {
		if b.Lit != nil {
			continue // literals are visited as part of their declaration
		}
		ast.Inspect(b.Body, func(x ast.Node) bool {
			switch s := x.(type) {
			case *ast.CallExpr:
				sel, ok := ast.Unparen(s.Fun).(*ast.SelectorExpr)
				if !ok || sel.Sel.Name != "Set" || len(s.Args) != 2 {
					return true
				}
				if t := info.TypeOf(s.Args[1]); t == nil || !isEntryPtr(t) {
					return true
				}
				nSet++
				key := fmt.Sprintf("key-is-end|%s|%s", b.Label, types.ExprString(s))
				if len(key) > 160 {
					key = key[:160]
				}
				k := types.ExprString(s.Args[0])
				okKey := false
				switch v := ast.Unparen(s.Args[1]).(type) {
				case *ast.Ident:
					okKey = k == v.Name+".End"
				case *ast.UnaryExpr:
					if cl, ok := v.X.(*ast.CompositeLit); ok {
						for _, el := range cl.Elts {
							if kv, ok := el.(*ast.KeyValueExpr); ok && render(kv.Key) == "End" && types.ExprString(kv.Value) == k {
								okKey = true
							}
						}
					}
				}
				if okKey {
					w.ok(key, s.Pos(), "the entry is stored under its own End")
				} else {
					w.violation(key, s.Pos(), "an *Entry is stored under key "+k+", which is not (syntactically) that entry's End: lookups Seek by End, so the entry is found for the wrong points and Entries() is no longer sorted by interval")
				}
			case *ast.AssignStmt:
				for _, l := range s.Lhs {
					sl, ok := ast.Unparen(l).(*ast.SelectorExpr)
					if !ok || sl.Sel.Name != "End" {
						continue
					}
					t := info.TypeOf(sl.X)
					if t == nil {
						continue
					}
					if !isEntryPtr(t) {
						if n, ok := t.(*types.Named); !ok || n.Origin() != ent.Origin() {
							continue
						}
						// a local Entry *value* (a copy, e.g. in Contiguous) is not in the tree
						w.ok("end-immutable|"+b.Label+"|"+types.ExprString(l)+" (copy)", s.Pos(), "End of a local copy is changed, not of an entry in the tree")
						nEnd++
						continue
					}
					nEnd++
					w.violation("end-immutable|"+b.Label+"|"+types.ExprString(l), s.Pos(), "the End of an *Entry is reassigned: if the entry is in the tree it now sits under a stale key (the tree is keyed by End)")
				}
			}
			return true
		})
	}
	w.floor("Set calls storing *Entry values", nSet, 3)
	if nEnd == 0 {
		w.ok("end-immutable", ent.Obj().Pos(), "no assignment to the End of an entry anywhere in the package")
	}
	_ = strings.TrimSpace
}
