package protocompile

// Demonstration for F-C23 (place in /repo): in extra-comments mode the location of the `group`
// keyword of a label-less group (a group inside a oneof) claimed the declaration's leading comment,
// so the group *message* location, which carries that comment in standard mode, lost it: the two
// modes differed by a moved comment, not only by added ones.

import (
	"context"
	"fmt"
	"testing"

	"google.golang.org/protobuf/reflect/protodesc"
)

func TestFC23ExtraCommentsOnlyAddsComments(t *testing.T) {
	src := `syntax = "proto2";
message M {
  oneof o {
    // leading comment of group
    group G = 1 {
      optional int32 x = 2;
    }
    // leading of f
    int32 f = 3;
  }
  // leading G2
  optional group G2 = 4 { }
}
`
	type loc struct{ lead, trail, det string }
	get := func(mode SourceInfoMode) map[string]loc {
		c := Compiler{Resolver: &SourceResolver{Accessor: SourceAccessorFromMap(map[string]string{"a.proto": src})}, SourceInfoMode: mode}
		fs, err := c.Compile(context.Background(), "a.proto")
		if err != nil {
			t.Fatal(err)
		}
		out := map[string]loc{}
		for _, l := range protodesc.ToFileDescriptorProto(fs[0]).GetSourceCodeInfo().GetLocation() {
			out[fmt.Sprint(l.Path, l.Span)] = loc{l.GetLeadingComments(), l.GetTrailingComments(), fmt.Sprint(l.GetLeadingDetachedComments())}
		}
		return out
	}
	std, extra := get(SourceInfoStandard), get(SourceInfoExtraComments)
	if len(std) != len(extra) {
		t.Errorf("standard mode has %d locations, extra-comments mode %d", len(std), len(extra))
	}
	for k, v := range std {
		ev, ok := extra[k]
		if !ok {
			t.Errorf("location %s missing in extra-comments mode", k)
			continue
		}
		if v.lead != "" && ev.lead != v.lead || v.trail != "" && ev.trail != v.trail || v.det != "[]" && ev.det != v.det {
			t.Errorf("location %s: standard comments %+v are not kept in extra-comments mode: %+v", k, v, ev)
		}
	}
}
