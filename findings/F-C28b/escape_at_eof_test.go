package parser_test

// Demonstration for F-C28b (place in /repo/experimental/parser): a string literal that ends with
// a lone backslash at the end of the file makes the lexer's InvalidEscape diagnostic index
// text[1] of a one-byte span (the `len(text) < 2` branch lacked its return): the panic is caught
// by CatchICE and reported as an internal compiler error.

import (
	"testing"

	"github.com/bufbuild/protocompile/experimental/parser"
	"github.com/bufbuild/protocompile/experimental/report"
	"github.com/bufbuild/protocompile/experimental/source"
)

func TestFC28bBackslashAtEOF(t *testing.T) {
	for _, text := range []string{"syntax = \"proto3\\", "option x = 'a\\", "\"\\"} {
		r := new(report.Report)
		func() {
			defer func() {
				if p := recover(); p != nil {
					t.Fatalf("%q: Parse panicked: %v", text, p)
				}
			}()
			_, ok := parser.Parse("x.proto", source.NewFile("x.proto", text), r)
			if ok {
				t.Errorf("%q: parse reported success", text)
			}
		}()
		for i := range r.Diagnostics {
			d := &r.Diagnostics[i]
			if d.Level() == report.ICE {
				t.Errorf("%q: internal compiler error: %s", text, d.Message())
			}
		}
	}
}
