package parser

// Demonstration for F-C12c (place in /repo/parser): an extension range with compact options and
// no trailing ';' made parser.Parse panic ("semicolon is nil"): the grammar hands the nil result
// of requireSemicolon to ast.NewExtensionRangeNode, which insisted on a non-nil semicolon.

import (
	"strings"
	"testing"

	"github.com/bufbuild/protocompile/ast"
	"github.com/bufbuild/protocompile/reporter"
)

func TestFC12cExtensionRangeWithoutSemicolon(t *testing.T) {
	for _, src := range []string{
		"message Foo { extensions 1 to 10 [foo=1] }",
		"syntax=\"proto2\"; message Foo { extensions 1 to 10, 20 [(a.b)=1] } message Bar {}",
	} {
		func() {
			defer func() {
				if r := recover(); r != nil {
					t.Errorf("%q: Parse panicked: %v", src, r)
				}
			}()
			// keep-going reporter
			rep := reporter.NewReporter(func(reporter.ErrorWithPos) error { return nil }, nil)
			file, err := Parse("a.proto", strings.NewReader(src), reporter.NewHandler(rep))
			if file == nil || err == nil {
				t.Errorf("%q: want non-nil AST and an error, got ast nil=%v err=%v", src, file == nil, err)
				return
			}
			// the AST is walkable and convertible
			_ = ast.Walk(file, &ast.SimpleVisitor{DoVisitNode: func(n ast.Node) error { _ = file.NodeInfo(n).Start(); return nil }})
			_, _ = ResultFromAST(file, true, reporter.NewHandler(rep))
		}()
	}
}
