// Demonstration for C21 ("never leaves an options message half-populated"): place in /repo/options/ and run
//   GOPROXY=off go test -vet=off -count=1 -run TestFC21 ./options/
// Fails on the parent of /repo commit 19d54abd (features:{} left behind next to the uninterpreted option), passes from it on.
package options_test

import (
	"strings"
	"testing"

	"github.com/stretchr/testify/require"
	"google.golang.org/protobuf/encoding/prototext"

	"github.com/bufbuild/protocompile/options"
	"github.com/bufbuild/protocompile/parser"
	"github.com/bufbuild/protocompile/reporter"
)

func TestFC21HalfPopulated(t *testing.T) {
	src := `
edition = "2023";
package demo;
import "google/protobuf/cpp_features.proto";
message M {
  string s = 1 [features.(pb.cpp).string_type = VIEW];
  string u = 2 [features.field_presence = IMPLICIT, features.(pb.cpp).string_type = VIEW];
}
`
	h := reporter.NewHandler(nil)
	fileNode, err := parser.Parse("demo.proto", strings.NewReader(src), h)
	require.NoError(t, err)
	res, err := parser.ResultFromAST(fileNode, true, h)
	require.NoError(t, err)
	_, err = options.InterpretUnlinkedOptions(res)
	require.NoError(t, err)
	for _, fld := range res.FileDescriptorProto().MessageType[0].Field {
		t.Logf("field %s options: %s", fld.GetName(), prototext.MarshalOptions{}.Format(fld.Options))
	}
	f0 := res.FileDescriptorProto().MessageType[0].Field[0]
	require.Len(t, f0.Options.UninterpretedOption, 1, "the option that cannot be interpreted is kept verbatim")
	require.Nil(t, f0.Options.Features, "the option was not interpreted, so it must not leave an (empty) features message behind")
}
