package parser_test

// F-C28c: copy to experimental/parser/zz_c28c_test.go and run
//   go test -run TestC28ReservedMixingTagsAndNamesWithoutSemicolon ./experimental/parser/

import (
	"testing"

	"github.com/bufbuild/protocompile/experimental/parser"
	"github.com/bufbuild/protocompile/experimental/report"
	"github.com/bufbuild/protocompile/experimental/source"
)

// A `reserved` that mixes tags and names, is not terminated by `;` and is followed by white
// space: the "split the reserved" suggestion deletes the element together with the white space
// after it, which lies beyond the declaration's span.
func TestC28ReservedMixingTagsAndNamesWithoutSemicolon(t *testing.T) {
	for _, text := range []string{
		"syntax = \"proto2\";\nmessage M { reserved 1, foo \n }\n",
		"syntax = \"proto2\";\nenum E { A = 0; reserved 2, 3, BAR\t\n}\n",
	} {
		r := new(report.Report)
		func() {
			defer func() {
				if p := recover(); p != nil {
					t.Errorf("%q: Parse panicked: %v", text, p)
				}
			}()
			_, _ = parser.Parse("demo.proto", source.NewFile("demo.proto", text), r)
		}()
		for i := range r.Diagnostics {
			d := &r.Diagnostics[i]
			if d.Level() == report.ICE {
				t.Errorf("%q: internal compiler error: %s %v", text, d.Message(), d.Notes())
			}
		}
	}
}
