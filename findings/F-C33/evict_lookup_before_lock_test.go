package incremental_test

// Demonstration for F-C33 (place in /repo/experimental/incremental): EvictWithCleanup looked the
// keys up (getTask) *before* taking the exclusive dirty lock. If a Run is in flight that has not
// yet asked for the key, the lookup misses; the eviction then waits for the Run, the Run memoizes
// the key from the old input, and the eviction continues with an empty work list: nothing is
// evicted, the cleanup publishes the new input, and every later Run returns the stale value.

import (
	"sync/atomic"
	"testing"
	"time"

	"github.com/bufbuild/protocompile/experimental/incremental"
)

type fc33World struct {
	value   atomic.Int64
	entered chan struct{}
	proceed chan struct{}
}

type fc33Leaf struct{ w *fc33World }

func (q fc33Leaf) Key() any { return "fc33-leaf" }
func (q fc33Leaf) Execute(*incremental.Task) (int64, error) {
	return q.w.value.Load(), nil
}

type fc33Top struct{ w *fc33World }

func (q fc33Top) Key() any { return "fc33-top" }
func (q fc33Top) Execute(t *incremental.Task) (int64, error) {
	close(q.w.entered)
	<-q.w.proceed
	r, err := incremental.Resolve(t, incremental.Query[int64](fc33Leaf{q.w}))
	if err != nil {
		return 0, err
	}
	return r[0].Value + 100, r[0].Fatal
}

func TestFC33EvictOfKeyFirstComputedByInFlightRun(t *testing.T) {
	w := &fc33World{entered: make(chan struct{}), proceed: make(chan struct{})}
	w.value.Store(1)
	exec := incremental.New(incremental.WithParallelism(4))
	ctx := t.Context()

	// A Run is in flight and parked before it asks for the leaf (the leaf is not memoized yet).
	runDone := make(chan int64, 1)
	go func() {
		res, _, err := incremental.Run(ctx, exec, incremental.Query[int64](fc33Top{w}))
		if err != nil {
			runDone <- -1
			return
		}
		runDone <- res[0].Value
	}()
	<-w.entered

	// The input changes: evict the leaf and publish the new input atomically.
	evictDone := make(chan struct{})
	go func() {
		defer close(evictDone)
		exec.EvictWithCleanup([]any{"fc33-leaf"}, func() { w.value.Store(2) })
	}()
	select {
	case <-evictDone:
		t.Fatal("eviction completed while a Run was in flight")
	case <-time.After(300 * time.Millisecond):
	}
	close(w.proceed)
	if v := <-runDone; v != 101 {
		t.Fatalf("in-flight Run: got %d, want 101", v)
	}
	<-evictDone

	// After the eviction returned, the input is 2; a fresh computation gives 2 / 102.
	res, _, err := incremental.Run(ctx, exec, incremental.Query[int64](fc33Leaf{w}))
	if err != nil {
		t.Fatal(err)
	}
	if res[0].Value != 2 {
		t.Errorf("leaf is stale after EvictWithCleanup returned: got %d, want 2 (keys: %v)", res[0].Value, exec.Keys())
	}
}
