package parser_test

// F-C28d: copy to experimental/parser/zz_c28d_test.go and run, once per case,
//   C28_CASE=decl|expr|type|path go test -run TestC28DeepNesting ./experimental/parser/
// On the unchanged tree each case kills the test binary with "fatal error: stack overflow" (the
// goroutine stack exceeds its 1 GB limit), which no recover / CatchICE can intercept.

import (
	"os"
	"strings"
	"testing"

	"github.com/bufbuild/protocompile/experimental/parser"
	"github.com/bufbuild/protocompile/experimental/report"
	"github.com/bufbuild/protocompile/experimental/source"
)

func TestC28DeepNesting(t *testing.T) {
	const n = 4 << 20
	var text string
	switch os.Getenv("C28_CASE") {
	case "decl", "":
		text = strings.Repeat("{", n) // parse / parseDecl / parseBody
	case "expr":
		text = "option x = " + strings.Repeat("[", n) // parseExpr / parseExprInfix / parseExprPrefix / parseExprSolo
	case "type":
		text = "message M { " + strings.Repeat("map<int32, ", n) // parseType / parseTypeImpl
	case "path":
		text = "option " + strings.Repeat("(", n) // parsePath
	}
	r := new(report.Report)
	_, _ = parser.Parse("deep.proto", source.NewFile("deep.proto", text), r)
	for i := range r.Diagnostics {
		if d := &r.Diagnostics[i]; d.Level() == report.ICE {
			t.Errorf("internal compiler error: %s", d.Message())
		}
	}
}
