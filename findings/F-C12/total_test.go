package parser_test

// Demonstrations for two C12 defects (place in /repo/parser):
//  F-C12a: parser.Parse panics (index out of range [-1] in FileInfo.SourcePos) when an invalid UTF-8
//          byte directly follows an escape introducer near the start of the file: reportErr backs the
//          position up by len("\\"+string(c)), and string(utf8.RuneError) is 3 bytes although only
//          one byte was consumed.
//  F-C12b: parser.ResultFromAST panics on the AST Parse returns for a compact option without a
//          value (`[foo]`): the OptionNode has Val == nil and asUninterpretedOption calls
//          node.Val.Value().

import (
	"strings"
	"testing"

	"github.com/bufbuild/protocompile/parser"
	"github.com/bufbuild/protocompile/reporter"
)

func lenient() *reporter.Handler {
	return reporter.NewHandler(reporter.NewReporter(func(reporter.ErrorWithPos) error { return nil }, nil))
}

func TestFC12aInvalidUTF8AfterEscape(t *testing.T) {
	for _, src := range []string{"'\\\xff'", "\"\\x\xffZ\"", "'\\x\xff' ;"} {
		func() {
			defer func() {
				if p := recover(); p != nil {
					t.Errorf("Parse(%q) panicked: %v", src, p)
				}
			}()
			ast, _ := parser.Parse("a.proto", strings.NewReader(src), lenient())
			if ast == nil {
				t.Errorf("Parse(%q) returned a nil AST", src)
			}
		}()
	}
}

func TestFC12bCompactOptionWithoutValue(t *testing.T) {
	src := "syntax = \"proto2\"; message A { optional int32 a = 1 [foo]; }"
	h := lenient()
	ast, _ := parser.Parse("a.proto", strings.NewReader(src), h)
	defer func() {
		if p := recover(); p != nil {
			t.Errorf("ResultFromAST panicked: %v", p)
		}
	}()
	_, _ = parser.ResultFromAST(ast, true, lenient())
}
