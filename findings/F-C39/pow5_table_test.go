package decimal

// Demonstrations for the three C39 findings (copy to internal/decimal/zz_c39_test.go).
//   F-C39a  TestC39Pow5TableEntry      pow5s[23] was 1e07/0x1p07: every numeral whose exponent is 23 mod 32 on the fast path
//   F-C39b  TestC39FastPathRoundsOnce  the fast path ran for every exponent: two roundings
//   F-C39c  TestC39ExactFlag           exact=true for values that were rounded

import (
	"strconv"
	"testing"
)

func c39check(t *testing.T, s string) {
	t.Helper()
	d, err := new(Decimal).Parse(s)
	if err != nil {
		t.Fatalf("%s: %v", s, err)
	}
	got, _ := d.Float64()
	want, _ := strconv.ParseFloat(s, 64)
	if got != want {
		t.Errorf("%s: Float64() = %v, nearest binary64 (strconv) = %v", s, got, want)
	}
}

func TestC39Pow5TableEntry(t *testing.T) {
	for _, s := range []string{"1e23", "1.5e24", "12e-23", "1e55", "4e87"} {
		c39check(t, s)
	}
}

func TestC39FastPathRoundsOnce(t *testing.T) {
	for _, s := range []string{"3e23", "7e55", "1e-23", "1e-55", "1320e232", "10625e-51", "2192e-67", "50181125015e218", "9007199254740992e-325"} {
		c39check(t, s)
	}
}

func TestC39ExactFlag(t *testing.T) {
	for _, s := range []string{"0.3", "1e-1", "19813e-3", "3e23", "1e-300"} {
		d, err := new(Decimal).Parse(s)
		if err != nil {
			t.Fatalf("%s: %v", s, err)
		}
		if _, exact := d.Float64(); exact {
			t.Errorf("%s: reported as exact, but no binary64 value equals it", s)
		}
	}
	for _, s := range []string{"0.5", "1e22", "123e5", "625e-4", "0", "18.1875"} {
		d, err := new(Decimal).Parse(s)
		if err != nil {
			t.Fatalf("%s: %v", s, err)
		}
		if _, exact := d.Float64(); !exact {
			t.Logf("%s: exactly representable but reported inexact (allowed, one-directional)", s)
		}
	}
}
