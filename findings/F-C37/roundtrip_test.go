package report_test

// Demonstration for F-C37a/b (place in /repo/experimental/report): a report with a zero-width
// span at the end of the file, or an ICE-level diagnostic, could be serialized but not decoded.

import (
	"testing"

	"google.golang.org/protobuf/proto"

	"github.com/bufbuild/protocompile/experimental/report"
	"github.com/bufbuild/protocompile/experimental/source"
)

func TestFC37RoundTrip(t *testing.T) {
	f := source.NewFile("a.proto", "message M {")
	r := &report.Report{}
	r.Errorf("unexpected end of file").Apply(report.Snippetf(f.Span(len(f.Text()), len(f.Text())), "here"))
	r.Levelf(report.ICE, "internal error")
	bytes, err := proto.Marshal(r.ToProto())
	if err != nil {
		t.Fatal(err)
	}
	r2 := &report.Report{}
	if err := r2.AppendFromProto(func(m proto.Message) error { return proto.Unmarshal(bytes, m) }); err != nil {
		t.Fatalf("round trip failed: %v", err)
	}
	if len(r2.Diagnostics) != 2 || r2.Diagnostics[1].Level() != report.ICE {
		t.Fatalf("diagnostics lost: %d", len(r2.Diagnostics))
	}
}
