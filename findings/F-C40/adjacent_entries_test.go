package interval_test

// Demonstration for the open finding F-C40 (place in /repo/internal/interval): when an inserted
// interval spans two *adjacent* entries, Intersect.Insert queues the "gap" piece
// [prev.End+1, entry.Start-1] although the gap is empty (guard `prev.End < entry.Start` instead
// of `prev.End+1 < entry.Start`); the empty piece is stored under key prev.End and replaces the
// entry that ends there, so the points of that entry are lost.

import (
	"fmt"
	"testing"

	"github.com/bufbuild/protocompile/internal/interval"
)

func TestFC40InsertSpanningAdjacentEntries(t *testing.T) {
	var m interval.Intersect[int, string]
	m.Insert(0, 5, "a")
	m.Insert(6, 10, "b")
	m.Insert(3, 8, "c")
	prevEnd := -1
	for e := range m.Entries() {
		if e.Start > e.End {
			t.Errorf("empty entry [%d,%d] %v in the map", e.Start, e.End, e.Value)
		}
		if e.Start <= prevEnd {
			t.Errorf("entries not sorted/disjoint at [%d,%d]", e.Start, e.End)
		}
		prevEnd = e.End
	}
	for p := 0; p <= 10; p++ {
		var want []string
		if p <= 5 {
			want = append(want, "a")
		}
		if p >= 6 {
			want = append(want, "b")
		}
		if p >= 3 && p <= 8 {
			want = append(want, "c")
		}
		if got := m.Get(p).Value; fmt.Sprint(got) != fmt.Sprint(want) {
			t.Errorf("Get(%d) = %v, want %v", p, got, want)
		}
	}
}
