package protocompile_test

// Demonstration for F-C09/C24 (place in /repo): a resolver answering with
// ParseResult: parser.ResultWithoutAST(fd) panicked in the linker because parser.Clone
// dropped the no-AST placeholder; the same file supplied as Proto compiled.

import (
	"context"
	"testing"

	"google.golang.org/protobuf/proto"
	"google.golang.org/protobuf/types/descriptorpb"

	"github.com/bufbuild/protocompile"
	"github.com/bufbuild/protocompile/parser"
)

func TestFC09CloneWithoutAST(t *testing.T) {
	fd := &descriptorpb.FileDescriptorProto{
		Name:    proto.String("a.proto"),
		Syntax:  proto.String("proto3"),
		Package: proto.String("p"),
		MessageType: []*descriptorpb.DescriptorProto{{Name: proto.String("M"),
			Field: []*descriptorpb.FieldDescriptorProto{{Name: proto.String("f"), Number: proto.Int32(1),
				Label: descriptorpb.FieldDescriptorProto_LABEL_OPTIONAL.Enum(), TypeName: proto.String("M"), JsonName: proto.String("f")}}}},
	}
	for _, form := range []string{"proto", "parseresult"} {
		comp := protocompile.Compiler{
			Resolver: protocompile.ResolverFunc(func(name string) (protocompile.SearchResult, error) {
				if form == "proto" {
					return protocompile.SearchResult{Proto: fd}, nil
				}
				return protocompile.SearchResult{ParseResult: parser.ResultWithoutAST(fd)}, nil
			}),
		}
		files, err := comp.Compile(context.Background(), "a.proto")
		if err != nil {
			t.Fatalf("%s: %v", form, err)
		}
		if files[0].Messages().Get(0).Fields().Get(0).Message() == nil {
			t.Fatalf("%s: not linked", form)
		}
	}
	cl := parser.Clone(parser.ResultWithoutAST(fd))
	if cl.FileNode() == nil || cl.FileNode().Name() != "a.proto" {
		t.Fatal("clone lost the placeholder node")
	}
}
