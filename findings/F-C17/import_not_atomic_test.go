package linker_test

// Demonstration for the open finding F-C17 (place in /repo/linker): Symbols.Import is not atomic.
//  (a) package-name entries are committed before the file's symbols are checked, so a failed import
//      leaves its package registered;
//  (b) the file's symbols (and earlier extension numbers) are committed before later extension
//      numbers are checked, so a file that fails on an extension-number collision stays visible and
//      a second import of the same file returns nil.

import (
	"context"
	"errors"
	"testing"

	"github.com/bufbuild/protocompile"
	"github.com/bufbuild/protocompile/linker"
	"github.com/bufbuild/protocompile/reporter"
)

var protoregistryNotFound = errors.New("not found")

func compileAll(t *testing.T, files map[string]string, names ...string) linker.Files {
	t.Helper()
	c := protocompile.Compiler{Resolver: protocompile.WithStandardImports(&protocompile.SourceResolver{Accessor: protocompile.SourceAccessorFromMap(files)})}
	fs, err := c.Compile(context.Background(), names...)
	if err != nil {
		t.Fatal(err)
	}
	return fs
}

func TestFC17ImportNotAtomic(t *testing.T) {
	files := map[string]string{
		"a.proto": `syntax = "proto2"; package p; message M { extensions 100 to 200; } message Dup {}`,
		"b.proto": `syntax = "proto2"; package q.r; message Dup2 {} `,
		// collides with a.proto on p.Dup, lives in a not-yet-registered package prefix "p.fresh" -> no: same package p
		"c.proto": `syntax = "proto2"; package p.fresh.pkg; import "a.proto"; message OnlyInC {} extend p.M { optional int32 x = 150; }`,
		"d.proto": `syntax = "proto2"; package other; import "a.proto"; message OnlyInD {} extend p.M { optional int32 y = 150; }`,
	}
	fs := compileAll(t, files, "a.proto", "c.proto")
	a, c := fs[0], fs[1]
	// d.proto is compiled separately (it collides with c.proto); reuse the same a.proto descriptor
	// through a resolver that serves the already linked file
	cd := protocompile.Compiler{Resolver: protocompile.CompositeResolver{
		protocompile.ResolverFunc(func(p string) (protocompile.SearchResult, error) {
			if p == "a.proto" {
				return protocompile.SearchResult{Desc: a}, nil
			}
			return protocompile.SearchResult{}, protoregistryNotFound
		}),
		protocompile.WithStandardImports(&protocompile.SourceResolver{Accessor: protocompile.SourceAccessorFromMap(files)}),
	}}
	dfs, err := cd.Compile(context.Background(), "d.proto")
	if err != nil {
		t.Fatal(err)
	}
	d := dfs[0]
	syms := &linker.Symbols{}
	h := reporter.NewHandler(nil)
	if err := syms.Import(a, h); err != nil {
		t.Fatal(err)
	}
	if err := syms.Import(c, reporter.NewHandler(nil)); err != nil {
		t.Fatal(err)
	}
	// d collides with c on extension number 150 of p.M
	err = syms.Import(d, reporter.NewHandler(nil))
	if err == nil {
		t.Fatal("expected an extension number collision")
	}
	if span := syms.Lookup("other.OnlyInD"); span != nil {
		t.Errorf("(b) failed import left other.OnlyInD visible at %v", span)
	}
	// (a) a file without a package that defines a message named "other" does not collide with
	// anything that was successfully imported; it collides only with the package entry that the
	// failed import of d.proto left behind.
	efs := compileAll(t, map[string]string{"e.proto": `syntax = "proto2"; message other {}`}, "e.proto")
	if err3 := syms.Import(efs[0], reporter.NewHandler(nil)); err3 != nil {
		t.Errorf("(a) failed import left package 'other' registered: %v", err3)
	}
	if err2 := syms.Import(d, reporter.NewHandler(nil)); err2 == nil {
		t.Errorf("(b) importing the same file again does not report the collision again")
	}
}
