package parser

// Demonstration for F-C14 (place in /repo/parser): hex and unicode escapes were converted with
// strconv.ParseInt, which accepts a leading sign, so "\x+1", "\x-1", "\u+041", "\u-041",
// "\U+0000041" were accepted (protoc: "Expected hex digits for escape sequence").

import (
	"strings"
	"testing"

	"github.com/bufbuild/protocompile/reporter"
)

func TestFC14SignedEscapesRejected(t *testing.T) {
	for _, lit := range []string{`"\x+1"`, `"\x-1"`, `"\u+041"`, `"\u-041"`, `"\U+0000041"`, `"\U-0000041"`} {
		src := "syntax = \"proto3\";\noption java_package = " + lit + ";\n"
		_, err := Parse("a.proto", strings.NewReader(src), reporter.NewHandler(nil))
		if err == nil {
			t.Errorf("%s accepted; protoc rejects it", lit)
		}
	}
	// well-formed escapes keep their values
	src := "syntax = \"proto3\";\noption java_package = \"\\x41\\x4a\\u0041\\uFFFD\\U0010FFFF\\101\";\n"
	ast, err := Parse("a.proto", strings.NewReader(src), reporter.NewHandler(nil))
	if err != nil {
		t.Fatal(err)
	}
	res, err := ResultFromAST(ast, true, reporter.NewHandler(nil))
	if err != nil {
		t.Fatal(err)
	}
	var got string
	for _, o := range res.FileDescriptorProto().GetOptions().GetUninterpretedOption() {
		got = string(o.GetStringValue())
	}
	if want := "AJA�\U0010FFFFA"; got != want {
		t.Fatalf("got %q want %q", got, want)
	}
}
