package parser_test

// Demonstration for F-C29a (place in /repo/experimental/parser): unrecognized bytes at the very
// end of the input were never pushed as a token nor diagnosed, so the tokens did not tile the input.

import (
	"strings"
	"testing"

	"github.com/bufbuild/protocompile/experimental/parser"
	"github.com/bufbuild/protocompile/experimental/report"
	"github.com/bufbuild/protocompile/experimental/source"
	"github.com/bufbuild/protocompile/experimental/token"
)

func TestFC29TrailingBadBytes(t *testing.T) {
	text := "package p;\n\x01\x02"
	r := &report.Report{}
	file, _ := parser.Parse("a.proto", source.NewFile("a.proto", text), r)
	var sb strings.Builder
	for tok := range file.Stream().All() {
		if tok.Kind() == token.Unrecognized || tok.IsLeaf() {
			sb.WriteString(tok.Text())
		} else {
			sb.WriteString(tok.Text())
		}
	}
	if sb.String() != text {
		t.Fatalf("tokens do not tile the input: %q vs %q (diagnostics: %d)", sb.String(), text, len(r.Diagnostics))
	}
	if len(r.Diagnostics) == 0 {
		t.Fatal("no diagnostic for trailing unrecognized bytes")
	}
}
