package interval_test

// F-C40c: copy to internal/interval/zz_c40c_test.go and run
//   go test -run TestC40NestingKeepsIntervalsWithSharedEnd ./internal/interval/

import (
	"testing"

	"github.com/bufbuild/protocompile/internal/interval"
)

// The sets of a Nesting are keyed by the end of each interval. An interval that shares its end
// with one already in a set is not strictly nested in it, yet it is accepted into that set and
// replaces it there: the earlier interval is lost.
func TestC40NestingKeepsIntervalsWithSharedEnd(t *testing.T) {
	var n interval.Nesting[int, string]
	n.Insert(0, 10, "outer")
	n.Insert(5, 10, "inner")
	var got []string
	for set := range n.Sets() {
		for e := range set {
			got = append(got, e.Value)
		}
	}
	if len(got) != 2 {
		t.Errorf("inserted 2 intervals, the collection holds %d: %v", len(got), got)
	}
}
