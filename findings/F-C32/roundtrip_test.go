package source_test

// Demonstration for F-C32 (place in /repo/experimental/source): InverseLocation added the
// remaining *column count* to a *byte offset* when the column lies at or past the end of the
// line's text (`offset += column` in the Runes and UTF16 clauses): the end of the file on an empty
// last line ("a\n" offset 2 came back as 3), and the end of the file right after a multi-byte
// character ("é" offset 2 came back as 1) do not round-trip.

import (
	"testing"

	"github.com/bufbuild/protocompile/experimental/source"
	"github.com/bufbuild/protocompile/experimental/source/length"
)

func TestFC32OffsetLocationRoundTrip(t *testing.T) {
	for _, text := range []string{"", "a", "a\n", "é", "a\né", "ab\n\n", "x\n𝄞", "日本\n語", "𝄞𝄞\n𝄞é\n", "tab\té\n\n"} {
		f := source.NewFile("a", text)
		for _, u := range []length.Unit{length.Bytes, length.UTF16, length.Runes} {
			for off := 0; off <= len(text); off++ {
				if off < len(text) && (text[off]&0xC0) == 0x80 {
					continue // not on a character boundary
				}
				loc := f.Location(off, u)
				back := f.InverseLocation(loc.Line, loc.Column, u)
				if back.Offset != off {
					t.Errorf("text=%q unit=%v offset=%d -> %d:%d -> %d", text, u, off, loc.Line, loc.Column, back.Offset)
				}
			}
		}
	}
}
