package toposort_test

// Demonstration for the open finding F-C41 (place in /repo/internal/toposort): on cyclic input the
// sort panics instead of terminating and yielding each reachable node once.

import (
	"iter"
	"slices"
	"testing"

	"github.com/bufbuild/protocompile/internal/toposort"
)

func TestFC41CyclePanics(t *testing.T) {
	edges := map[int][]int{1: {2}, 2: {3}, 3: {1}}
	defer func() {
		if p := recover(); p != nil {
			t.Fatalf("toposort panicked on a cycle: %v", p)
		}
	}()
	var out []int
	for n := range toposort.Sort([]int{1}, func(n int) int { return n }, func(n int) iter.Seq[int] {
		return slices.Values(edges[n])
	}) {
		out = append(out, n)
	}
	if len(out) != 3 {
		t.Fatalf("yielded %v", out)
	}
}
