package parser_test

// Demonstration for F-C13 (place in /repo/parser): a newline consumed inside a string literal
// (right after a backslash / \x / \u / \U escape introducer) was never entered into the line
// table, so later errors were reported on the wrong line with a column that does not exist.

import (
	"strings"
	"testing"

	"github.com/bufbuild/protocompile/parser"
	"github.com/bufbuild/protocompile/reporter"
)

func TestFC13LineAccounting(t *testing.T) {
	for _, esc := range []string{"\\", "\\x", "\\u", "\\U"} {
		// line 2 holds the start of the literal, the newline is consumed as part of the escape,
		// and line 3 holds an invalid escape \q at column 3.
		src := "syntax = \"proto3\";\noption x = \"abc" + esc + "\n  \\q\";\n"
		var got []reporter.ErrorWithPos
		h := reporter.NewHandler(reporter.NewReporter(func(e reporter.ErrorWithPos) error {
			got = append(got, e)
			return nil
		}, nil))
		_, _ = parser.Parse("a.proto", strings.NewReader(src), h)
		found := false
		for _, e := range got {
			if strings.Contains(e.Error(), "\\q") {
				found = true
				if e.GetPosition().Line != 3 || e.GetPosition().Col != 3 {
					t.Errorf("escape %q: error for \\q reported at %d:%d, want 3:3 (%v)", esc, e.GetPosition().Line, e.GetPosition().Col, e)
				}
			}
		}
		if !found {
			t.Errorf("escape %q: no error for \\q among %v", esc, got)
		}
	}
}
