package parser_test

// Demonstration for F-C28 (place in /repo/experimental/parser): Parse's ok flag was computed with
// d.Level() >= report.Error although ICE=1 < Error=2 < Warning=3 < Remark=4, so a file with only
// a warning reported ok=false.

import (
	"testing"

	"github.com/bufbuild/protocompile/experimental/parser"
	"github.com/bufbuild/protocompile/experimental/report"
	"github.com/bufbuild/protocompile/experimental/source"
)

func TestFC28OkFlag(t *testing.T) {
	// a warning-only input: unused import
	r := &report.Report{}
	_, ok := parser.Parse("a.proto", source.NewFile("a.proto", "syntax = \"proto2\"; package p; message M { required int32 x = 1; }"), r)
	hasErr := false
	for _, d := range r.Diagnostics {
		if d.Level() == report.Error || d.Level() == report.ICE {
			hasErr = true
		}
	}
	t.Logf("diagnostics=%d hasErr=%v ok=%v", len(r.Diagnostics), hasErr, ok)
	if ok == hasErr {
		t.Fatalf("ok=%v but error diagnostics present=%v", ok, hasErr)
	}
	r2 := &report.Report{}
	_, ok2 := parser.Parse("b.proto", source.NewFile("b.proto", "syntax = \"proto3\"; message {"), r2)
	if ok2 {
		t.Fatalf("syntax error reported ok=true")
	}
}
