// Demonstration of two divergences between the experimental and the stable compiler (C27)
// that were repaired by /repo commits f93bcbda (float default width) and f57e35f5 (aliased enum
// default). Place in the repository root (package protocompile_test) and run
//   GOPROXY=off go test -vet=off -count=1 -run TestFC27 .
// On the parent of f93bcbda both float_default.proto and alias_default.proto fail.
package protocompile_test

import (
	"testing"

	"github.com/stretchr/testify/require"

	"github.com/bufbuild/protocompile"
	"github.com/bufbuild/protocompile/internal/testing/dualcompiler"
)

func TestFC27(t *testing.T) {
	sources := map[string]string{
		"float_default.proto": "syntax = \"proto2\";\npackage c27;\nmessage F { optional float a = 1 [default = 0.1]; }\n",
		"float_default2.proto": "syntax = \"proto2\";\npackage c27;\nmessage F2 { optional float a = 1 [default = 16777217]; }\n",
		"double_default.proto": "syntax = \"proto2\";\npackage c27;\nmessage D { optional double a = 1 [default = 0.1]; }\n",
		"alias_default.proto": "syntax = \"proto2\";\npackage c27;\nenum E { option allow_alias = true; A = 0; B = 1; C = 1; }\nmessage M { optional E e = 1 [default = C]; }\n",
	}
	for name := range sources {
		t.Run(name, func(t *testing.T) {
			resolver := protocompile.WithStandardImports(&protocompile.SourceResolver{
				Accessor: protocompile.SourceAccessorFromMap(sources),
			})
			opts := []dualcompiler.CompilerOption{dualcompiler.WithResolver(resolver)}
			dualcompiler.RunAndCompareIf(t, dualcompiler.SkipConfig{}, opts,
				func(t *testing.T, oldC, newC dualcompiler.CompilerInterface) (dualcompiler.CompilationResult, dualcompiler.CompilationResult) {
					oldRes, oldErr := oldC.Compile(t.Context(), name)
					newRes, newErr := newC.Compile(t.Context(), name)
					require.NoError(t, oldErr, "stable compiler rejected %s", name)
					require.NoError(t, newErr, "experimental compiler rejected %s", name)
					return oldRes, newRes
				})
		})
	}
}
