package interval_test

// F-C40b: copy to internal/interval/zz_c40b_test.go and run
//   go test -run TestC40ValueListsDoNotAlias ./internal/interval/

import (
	"fmt"
	"testing"

	"github.com/bufbuild/protocompile/internal/interval"
)

// Three values on [0,9] give the entry a value list with spare capacity. Splitting it at 5
// leaves two entries whose lists share one backing array: the next value appended to the left
// half is written over the value the right half received.
func TestC40ValueListsDoNotAlias(t *testing.T) {
	var m interval.Intersect[int, string]
	m.Insert(0, 9, "a")
	m.Insert(0, 9, "b")
	m.Insert(0, 9, "c")
	m.Insert(5, 9, "d")
	m.Insert(0, 4, "e")
	want := map[int]string{0: "[a b c e]", 4: "[a b c e]", 5: "[a b c d]", 9: "[a b c d]"}
	for p, w := range want {
		if got := fmt.Sprint(m.Get(p).Value); got != w {
			t.Errorf("Get(%d) = %s, want %s", p, got, w)
		}
	}
}
