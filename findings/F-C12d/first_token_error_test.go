package parser

// Demonstration for F-C12d (place in /repo/parser): when the very first token is a lexer error
// and the reporter aborts, Parse returns an AST whose FileInfo has no items; NodeInfo(...).Start()
// then indexed items[0] and panicked — e.g. inside a warning reporter that reads the position of
// the "no syntax specified" warning ResultFromAST emits for that AST.

import (
	"strings"
	"testing"

	"github.com/bufbuild/protocompile/reporter"
)

func TestFC12dFirstTokenLexError(t *testing.T) {
	for _, src := range []string{"\"abc", "'", "\x01", "/* never closed"} {
		func() {
			defer func() {
				if r := recover(); r != nil {
					t.Errorf("%q: panicked: %v", src, r)
				}
			}()
			rep := reporter.NewReporter(nil, func(e reporter.ErrorWithPos) { _ = e.GetPosition(); _ = e.Error() })
			file, err := Parse("a.proto", strings.NewReader(src), reporter.NewHandler(rep))
			if file == nil || err == nil {
				t.Fatalf("%q: want non-nil AST and an error", src)
			}
			_, _ = ResultFromAST(file, true, reporter.NewHandler(rep))
			_ = file.NodeInfo(file).Start()
			_ = file.NodeInfo(file).End()
			_ = file.NodeInfo(file).LeadingWhitespace()
			_ = file.NodeInfo(file).RawText()
		}()
	}
}
