package incremental_test

// Demonstration for the open finding F-C34b (place in /repo/experimental/incremental):
// Run1 leads query P, which panics. Run2, a concurrent Run on the same executor with its own
// (never cancelled) context, follows P. The leader un-publishes the pending result but never
// closes its done channel; Run2's follower waits on done and on its own context only, so Run2
// never returns.

import (
	"context"
	"testing"
	"time"

	"github.com/bufbuild/protocompile/experimental/incremental"
)

type fc34bP struct{ started, boom chan struct{} }

func (q fc34bP) Key() any { return "fc34b-p" }
func (q fc34bP) Execute(*incremental.Task) (int, error) {
	close(q.started)
	<-q.boom
	panic("boom")
}

func TestFC34bFollowerOfAnotherRunHangs(t *testing.T) {
	exec := incremental.New(incremental.WithParallelism(4))
	p := fc34bP{started: make(chan struct{}), boom: make(chan struct{})}
	run1 := make(chan error, 1)
	go func() {
		_, _, err := incremental.Run[int](context.Background(), exec, p)
		run1 <- err
	}()
	<-p.started
	run2 := make(chan error, 1)
	go func() {
		_, _, err := incremental.Run[int](context.Background(), exec, p)
		run2 <- err
	}()
	time.Sleep(200 * time.Millisecond) // let Run2 become a follower of P
	close(p.boom)
	if err := <-run1; err == nil {
		t.Fatal("Run1 should fail with the panic")
	}
	select {
	case <-run2:
	case <-time.After(5 * time.Second):
		t.Fatal("Run2 (a follower from a different Run) never returns after the leader panicked")
	}
}
