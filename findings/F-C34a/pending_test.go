package incremental_test

// Demonstration for F-C34a (place in /repo/experimental/incremental): with parallelism 1,
// Run(A, B) where A panics cancels the run while B's asynchronous leader is waiting for a permit;
// the leader returned without un-publishing its pending result, so a later Run(B) waited on it
// forever.

import (
	"context"
	"testing"
	"time"

	"github.com/bufbuild/protocompile/experimental/incremental"
)

type fc34Panic struct{ gate chan struct{} }

func (q fc34Panic) Key() any { return "fc34-panic" }
func (q fc34Panic) Execute(*incremental.Task) (int, error) {
	<-q.gate // wait until B's goroutine is queued on the semaphore
	panic("boom")
}

type fc34B struct{}

func (fc34B) Key() any                                 { return "fc34-b" }
func (fc34B) Execute(*incremental.Task) (int, error) { return 42, nil }

func TestFC34aPendingLeader(t *testing.T) {
	exec := incremental.New(incremental.WithParallelism(1))
	gate := make(chan struct{})
	go func() {
		time.Sleep(200 * time.Millisecond) // let B's async leader block in acquire()
		close(gate)
	}()
	_, _, err := incremental.Run[int](context.Background(), exec, fc34Panic{gate}, fc34B{})
	if err == nil {
		t.Fatal("expected the panic to fail the run")
	}
	done := make(chan struct{})
	var got []incremental.Result[int]
	go func() {
		defer close(done)
		got, _, err = incremental.Run[int](context.Background(), exec, fc34B{})
	}()
	select {
	case <-done:
		if err != nil || len(got) != 1 || got[0].Value != 42 {
			t.Fatalf("unexpected result %v %v", got, err)
		}
	case <-time.After(5 * time.Second):
		t.Fatal("second Run(B) hangs: the cancelled leader left its pending result behind")
	}
}
