package options_test

import (
	"context"
	"testing"

	"google.golang.org/protobuf/proto"
	"google.golang.org/protobuf/reflect/protodesc"
	"google.golang.org/protobuf/reflect/protoregistry"
	"google.golang.org/protobuf/types/descriptorpb"
	"google.golang.org/protobuf/types/dynamicpb"

	"github.com/bufbuild/protocompile"
	"github.com/bufbuild/protocompile/options"
)

func TestUnknownFieldsSurviveStrip(t *testing.T) {
	files := map[string]string{
		"src.proto": `syntax = "proto2";
package o;
import "google/protobuf/descriptor.proto";
extend google.protobuf.MessageOptions { optional string src = 50001 [retention = RETENTION_SOURCE]; }
`,
		"other.proto": `syntax = "proto2";
package o;
import "google/protobuf/descriptor.proto";
extend google.protobuf.MessageOptions { optional string other = 50002; }
`,
		"a.proto": `syntax = "proto2";
package p;
import "src.proto";
import "other.proto";
message M { option (o.src) = "secret"; option (o.other) = "keepme"; }
`,
	}
	c := protocompile.Compiler{Resolver: protocompile.WithStandardImports(&protocompile.SourceResolver{Accessor: protocompile.SourceAccessorFromMap(files)})}
	fs, err := c.Compile(context.Background(), "a.proto", "src.proto")
	if err != nil {
		t.Fatal(err)
	}
	raw, err := proto.Marshal(protodesc.ToFileDescriptorProto(fs[0]))
	if err != nil {
		t.Fatal(err)
	}
	// re-read knowing only the "src" extension
	types := &protoregistry.Types{}
	if err := types.RegisterExtension(dynamicpb.NewExtensionType(fs[1].Extensions().Get(0))); err != nil {
		t.Fatal(err)
	}
	fd := &descriptorpb.FileDescriptorProto{}
	if err := (proto.UnmarshalOptions{Resolver: types}).Unmarshal(raw, fd); err != nil {
		t.Fatal(err)
	}
	unk := fd.MessageType[0].Options.ProtoReflect().GetUnknown()
	if len(unk) == 0 {
		t.Fatal("setup: expected unknown bytes")
	}
	// an unrecognized field on the message descriptor itself (e.g. from a newer descriptor.proto)
	fd.MessageType[0].ProtoReflect().SetUnknown([]byte{0xf8, 0xf0, 0x04, 0x01}) // field 9999, varint 1
	stripped, err := options.StripSourceRetentionOptionsFromFile(fd)
	if err != nil {
		t.Fatal(err)
	}
	opts := stripped.MessageType[0].Options
	if opts == nil || len(opts.ProtoReflect().GetUnknown()) == 0 {
		t.Fatalf("unrecognized option (o.other) was dropped by stripping: %v", opts)
	}
	if len(stripped.MessageType[0].ProtoReflect().GetUnknown()) == 0 {
		t.Fatalf("unrecognized field of the copied message descriptor was dropped")
	}
}
