package options_test

// Demonstration for F-C21b (place in /repo/options): internal.RemoveOption removes an element from
// the *middle* of the uninterpreted-option list with append(uo[:i], uo[i+1:]...), shifting the
// caller's backing array in place. interpretFieldPseudoOptions keeps opts.UninterpretedOption
// pointing at the old slice header until its last statement; when it returns early after such a
// removal — in lenient/unlinked mode a rejected pseudo-option reports nothing and returns nil —
// the options message still has its old length over the shifted array: the option that could not
// be interpreted is gone and the last option appears twice.

import (
	"strings"
	"testing"

	"google.golang.org/protobuf/proto"
	"google.golang.org/protobuf/types/descriptorpb"

	"github.com/bufbuild/protocompile/options"
	"github.com/bufbuild/protocompile/parser"
	"github.com/bufbuild/protocompile/reporter"
)

func TestFC21bPseudoOptionRemovedInPlace(t *testing.T) {
	for name, src := range map[string]string{
		"json_name rejected late": `syntax = "proto2";
			import "google/protobuf/descriptor.proto";
			extend google.protobuf.FieldOptions { optional int32 a = 50001; optional int32 b = 50002; optional int32 c = 50003; }
			message Test { optional string f = 1 [(a) = 1, json_name = "[f]", (b) = 2, (c) = 3]; }`,
		"default rejected after json_name was removed": `syntax = "proto2";
			import "google/protobuf/descriptor.proto";
			extend google.protobuf.FieldOptions { optional int32 a = 50001; optional int32 c = 50003; }
			message Test { repeated string f = 1 [(a) = 1, json_name = "F", default = "x", (c) = 3]; }`,
	} {
		h := reporter.NewHandler(nil)
		fileNode, err := parser.Parse("test.proto", strings.NewReader(src), h)
		if err != nil {
			t.Fatal(err)
		}
		res, err := parser.ResultFromAST(fileNode, true, h)
		if err != nil {
			t.Fatal(err)
		}
		fld := res.FileDescriptorProto().GetMessageType()[0].GetField()[0]
		var before []*descriptorpb.UninterpretedOption
		for _, uo := range fld.GetOptions().GetUninterpretedOption() {
			before = append(before, proto.Clone(uo).(*descriptorpb.UninterpretedOption))
		}
		if _, err := options.InterpretUnlinkedOptions(res); err != nil {
			t.Fatal(err)
		}
		after := fld.GetOptions().GetUninterpretedOption()
		// every option that is still listed must be one of the originals, and none may be listed twice
		seen := map[string]int{}
		for _, uo := range after {
			seen[uo.String()]++
		}
		for k, n := range seen {
			if n > 1 {
				t.Errorf("%s: option listed %d times after lenient interpretation: %s", name, n, k)
			}
		}
		// the custom options cannot be interpreted without linking: all of them must still be there
		for _, uo := range before {
			if len(uo.GetName()) == 1 && uo.GetName()[0].GetIsExtension() && seen[uo.String()] == 0 {
				t.Errorf("%s: custom option %s was lost", name, uo.GetName()[0].GetNamePart())
			}
		}
		// a pseudo-option that was rejected must be kept verbatim
		if name == "json_name rejected late" {
			found := false
			for _, uo := range after {
				if uo.GetName()[0].GetNamePart() == "json_name" {
					found = true
				}
			}
			if !found {
				t.Errorf("%s: the rejected json_name option was neither applied nor kept (have %d options: %v)", name, len(after), after)
			}
		}
	}
}
