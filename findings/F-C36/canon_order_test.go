package report_test

// Demonstration for the open finding F-C36 (place in /repo/experimental/report):
// Canonicalize's sort key omits level, notes, help, debug, inFile and secondary snippets, so two
// diagnostics that differ only there tie and the result depends on the input order.

import (
	"testing"

	"github.com/bufbuild/protocompile/experimental/report"
	"github.com/bufbuild/protocompile/experimental/source"
)

func TestFC36CanonicalizeDependsOnInputOrder(t *testing.T) {
	f := source.NewFile("a.proto", "message M {}")
	mk := func(order []int) []report.Level {
		r := &report.Report{}
		r.KeepDuplicates = true
		for _, i := range order {
			if i == 0 {
				r.Errorf("same").Apply(report.Snippetf(f.Span(0, 7), "x"))
			} else {
				r.Warnf("same").Apply(report.Snippetf(f.Span(0, 7), "x"))
			}
		}
		r.Canonicalize()
		var out []report.Level
		for _, d := range r.Diagnostics {
			out = append(out, d.Level())
		}
		return out
	}
	a, b := mk([]int{0, 1}), mk([]int{1, 0})
	if len(a) != 2 || len(b) != 2 || a[0] != b[0] || a[1] != b[1] {
		t.Fatalf("canonical order depends on input order: %v vs %v", a, b)
	}
}
