package queries_test

import (
	"testing"

	"github.com/bufbuild/protocompile/experimental/incremental"
	"github.com/bufbuild/protocompile/experimental/incremental/queries"
	"github.com/bufbuild/protocompile/experimental/ir"
	"github.com/bufbuild/protocompile/experimental/report"
	"github.com/bufbuild/protocompile/experimental/source"
)

func c35Compile(t *testing.T, exec *incremental.Executor, session *ir.Session, opener source.Opener, paths ...string) string {
	t.Helper()
	results, rep, err := incremental.Run(t.Context(), exec, queries.FDS{
		Opener:    opener,
		Session:   session,
		Workspace: source.NewWorkspace(paths...),
	})
	if err != nil {
		return "Run failed: " + err.Error()
	}
	diagnostics, _, _ := report.Renderer{}.RenderString(rep)
	out := diagnostics
	if results[0].Fatal != nil {
		out = "fatal: " + results[0].Fatal.Error() + "\n" + out
	}
	return out
}

// a.proto and b.proto import each other. The workspace first contains a.proto only, then b.proto
// is added to it (no file changes, so nothing has to be evicted). The long-lived executor must
// report what a brand-new executor reports for the final workspace.
func TestC35CycleDiagnosticsAfterAddingFileToWorkspace(t *testing.T) {
	files := source.NewMap(nil)
	files.Add("a.proto", "syntax = \"proto3\";\npackage p;\nimport \"b.proto\";\nmessage A {}\n")
	files.Add("b.proto", "syntax = \"proto3\";\npackage p;\nimport \"a.proto\";\nmessage B {}\n")
	opener := source.Openers{files, source.WKTs()}
	exec := incremental.New(incremental.WithParallelism(1))
	session := new(ir.Session)

	_ = c35Compile(t, exec, session, &opener, "a.proto")
	got := c35Compile(t, exec, session, &opener, "a.proto", "b.proto")
	want := c35Compile(t, incremental.New(incremental.WithParallelism(1)), new(ir.Session), &opener, "a.proto", "b.proto")
	if got != want {
		t.Errorf("diagnostics differ from a fresh executor\nlong-lived:\n%s\nfresh:\n%s", got, want)
	}
}
