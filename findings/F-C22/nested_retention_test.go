package options_test

// Demonstration for the open finding F-C22 (place in /repo/options): a field declared with
// retention = RETENTION_SOURCE that sits inside a message-typed custom option is not stripped;
// only top-level option fields are filtered.

import (
	"context"
	"strings"
	"testing"

	"google.golang.org/protobuf/encoding/prototext"
	"google.golang.org/protobuf/reflect/protodesc"

	"github.com/bufbuild/protocompile"
	"github.com/bufbuild/protocompile/options"
)

func TestFC22NestedSourceRetention(t *testing.T) {
	files := map[string]string{
		"opt.proto": `syntax = "proto2";
package o;
import "google/protobuf/descriptor.proto";
message Meta {
  optional string src_only = 1 [retention = RETENTION_SOURCE];
  optional string keep = 2;
}
extend google.protobuf.MessageOptions { optional Meta meta = 50001; }
`,
		"a.proto": `syntax = "proto2";
package p;
import "opt.proto";
message M { option (o.meta) = { src_only: "secret" keep: "ok" }; }
`,
	}
	c := protocompile.Compiler{Resolver: protocompile.WithStandardImports(&protocompile.SourceResolver{Accessor: protocompile.SourceAccessorFromMap(files)})}
	fs, err := c.Compile(context.Background(), "a.proto")
	if err != nil {
		t.Fatal(err)
	}
	fd := protodesc.ToFileDescriptorProto(fs[0])
	stripped, err := options.StripSourceRetentionOptionsFromFile(fd)
	if err != nil {
		t.Fatal(err)
	}
	// render with the extension type known so the nested field is printed by name
	txt := prototext.MarshalOptions{Resolver: nil}.Format(stripped)
	raw, _ := prototext.Marshal(stripped)
	_ = txt
	if strings.Contains(string(raw), "secret") {
		t.Fatalf("source-retention field nested in an option message survived stripping:\n%s", raw)
	}
}
