package options_test

import (
	"context"
	"strings"
	"testing"

	"google.golang.org/protobuf/encoding/prototext"
	"google.golang.org/protobuf/proto"
	"google.golang.org/protobuf/reflect/protodesc"

	"github.com/bufbuild/protocompile"
	"github.com/bufbuild/protocompile/options"
)

func TestFC22Deep(t *testing.T) {
	files := map[string]string{
		"opt.proto": `syntax = "proto2";
package o;
import "google/protobuf/descriptor.proto";
message Inner {
  optional string src_only = 1 [retention = RETENTION_SOURCE];
  optional string keep = 2;
}
message Meta {
  optional string src_only = 1 [retention = RETENTION_SOURCE];
  optional string keep = 2;
  optional Inner inner = 3;
  repeated Inner list = 4;
  map<string, Inner> m = 5;
  optional Inner all_src = 6;
}
extend google.protobuf.MessageOptions { optional Meta meta = 50001; }
extend google.protobuf.FieldOptions { optional Meta fmeta = 50001; optional string fsrc = 50002 [retention = RETENTION_SOURCE]; }
`,
		"a.proto": `syntax = "proto2";
package p;
import "opt.proto";
message M {
  option (o.meta) = { src_only: "secret1" keep: "ok1"
    inner { src_only: "secret2" keep: "ok2" }
    list { keep: "ok3" } list { src_only: "secret3" keep: "ok4" } list { src_only: "secret4" }
    m { key: "a" value { src_only: "secret5" keep: "ok5" } }
    m { key: "b" value { keep: "ok6" } }
    all_src { src_only: "secret6" }
  };
  optional int32 f = 1 [(o.fmeta).inner.src_only = "secret7", (o.fmeta).inner.keep = "ok7", (o.fsrc) = "secret8"];
  optional int32 g = 2 [(o.fsrc) = "secret9"];
}
`,
	}
	c := protocompile.Compiler{
		Resolver:       protocompile.WithStandardImports(&protocompile.SourceResolver{Accessor: protocompile.SourceAccessorFromMap(files)}),
		SourceInfoMode: protocompile.SourceInfoStandard,
	}
	fs, err := c.Compile(context.Background(), "a.proto")
	if err != nil {
		t.Fatal(err)
	}
	fd := protodesc.ToFileDescriptorProto(fs[0])
	before := proto.Clone(fd)
	stripped, err := options.StripSourceRetentionOptionsFromFile(fd)
	if err != nil {
		t.Fatal(err)
	}
	if !proto.Equal(before, fd) {
		t.Fatal("input mutated")
	}
	raw, _ := prototext.MarshalOptions{Multiline: true}.Marshal(stripped)
	t.Logf("%s", raw)
	if strings.Contains(string(raw), "secret") {
		t.Fatalf("source-retention field survived")
	}
	for _, k := range []string{"ok1", "ok2", "ok3", "ok4", "ok5", "ok6", "ok7"} {
		if !strings.Contains(string(raw), k) {
			t.Fatalf("lost %s", k)
		}
	}
	again, err := options.StripSourceRetentionOptionsFromFile(stripped)
	if err != nil {
		t.Fatal(err)
	}
	if again != stripped {
		t.Fatal("not idempotent (expected same pointer)")
	}
	// locations: none may point into a removed option path
	for _, loc := range stripped.GetSourceCodeInfo().GetLocation() {
		t.Logf("%v", loc.Path)
	}
	n0, n1 := len(fd.GetSourceCodeInfo().GetLocation()), len(stripped.GetSourceCodeInfo().GetLocation())
	t.Logf("locations %d -> %d", n0, n1)
}
