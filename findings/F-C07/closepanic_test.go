package protocompile_test

// Demonstration for F-C07 (place in /repo, package protocompile_test):
// a resolver-supplied reader whose Close panics made the recover handler close result.ready twice
// ("panic: close of closed channel"), killing the process instead of returning a PanicError.

import (
	"context"
	"errors"
	"io"
	"strings"
	"testing"

	"github.com/bufbuild/protocompile"
)

type panicCloser struct{ io.Reader }

func (panicCloser) Close() error { panic("boom in Close") }

func TestFC07ClosePanic(t *testing.T) {
	comp := protocompile.Compiler{
		Resolver: protocompile.ResolverFunc(func(name string) (protocompile.SearchResult, error) {
			return protocompile.SearchResult{Source: panicCloser{strings.NewReader("syntax = \"proto3\";")}}, nil
		}),
	}
	_, err := comp.Compile(context.Background(), "a.proto")
	var pe protocompile.PanicError
	if !errors.As(err, &pe) {
		t.Fatalf("want PanicError, got %v", err)
	}
	if pe.Value != "boom in Close" {
		t.Fatalf("panic value lost: %v", pe.Value)
	}
}
