package protocompile_test

// Demonstration for the open finding F-C06 (place in /repo): with a resolver-supplied custom
// google/protobuf/descriptor.proto that imports foo.proto, every other file implicitly depends on
// descriptor.proto. asFile awaits that implicit dependency without running the cycle check on it:
//   Compile(foo.proto, descriptor.proto)   -> never returns (foo waits for descriptor, descriptor for foo)
//   Compile(descriptor.proto, foo.proto)   -> may report a spurious import cycle
// There is no real import cycle: foo.proto imports nothing.

import (
	"context"
	"strings"
	"testing"
	"time"

	"github.com/bufbuild/protocompile"
)

func TestFC06ImplicitDescriptorProtoDependency(t *testing.T) {
	files := map[string]string{
		"google/protobuf/descriptor.proto": `syntax = "proto2"; package google.protobuf; import "foo.proto";
message FileOptions { extensions 1000 to max; } message MessageOptions { extensions 1000 to max; }
message FieldOptions { extensions 1000 to max; } message OneofOptions { extensions 1000 to max; }
message EnumOptions { extensions 1000 to max; } message EnumValueOptions { extensions 1000 to max; }
message ServiceOptions { extensions 1000 to max; } message MethodOptions { extensions 1000 to max; }
message ExtensionRangeOptions { extensions 1000 to max; }`,
		"foo.proto": `syntax = "proto2"; package foo; message Foo {}`,
	}
	for _, order := range [][]string{{"foo.proto", "google/protobuf/descriptor.proto"}, {"google/protobuf/descriptor.proto", "foo.proto"}} {
		for i := 0; i < 20; i++ {
			comp := protocompile.Compiler{Resolver: &protocompile.SourceResolver{Accessor: protocompile.SourceAccessorFromMap(files)}, MaxParallelism: 2}
			ctx, cancel := context.WithTimeout(context.Background(), 3*time.Second)
			_, err := comp.Compile(ctx, order...)
			cancel()
			if err != nil && (strings.Contains(err.Error(), "deadline") || strings.Contains(err.Error(), "cycle")) {
				t.Fatalf("order %v, attempt %d: %v (there is no import cycle in these files)", order, i, err)
			}
		}
	}
}
