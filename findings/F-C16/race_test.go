package linker_test

// Demonstration for F-C16 (place in /repo/linker, run with -race):
// Symbols.Lookup / LookupExtension read packageSymbols maps without the lock while Import writes them.

import (
	"context"
	"fmt"
	"strings"
	"sync"
	"testing"

	"github.com/bufbuild/protocompile"
	"github.com/bufbuild/protocompile/linker"
)

func TestFC16LookupRace(t *testing.T) {
	files := map[string]string{}
	var names []string
	for i := 0; i < 50; i++ {
		n := fmt.Sprintf("f%d.proto", i)
		files[n] = fmt.Sprintf("syntax = \"proto3\"; package p; message M%d { string s = 1; }", i)
		names = append(names, n)
	}
	syms := &linker.Symbols{}
	comp := protocompile.Compiler{
		Resolver: &protocompile.SourceResolver{Accessor: protocompile.SourceAccessorFromMap(files)},
		Symbols:  syms,
	}
	var wg sync.WaitGroup
	stop := make(chan struct{})
	wg.Add(1)
	go func() {
		defer wg.Done()
		for {
			select {
			case <-stop:
				return
			default:
			}
			_ = syms.Lookup("p.M7")
			_ = syms.LookupExtension("p.M7", 100)
		}
	}()
	_, err := comp.Compile(context.Background(), names...)
	close(stop)
	wg.Wait()
	if err != nil && !strings.Contains(err.Error(), "x") {
		t.Fatal(err)
	}
}
