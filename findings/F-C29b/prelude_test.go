package parser_test

// Demonstration for the open finding F-C29b (place in /repo/experimental/parser): when lexPrelude
// bails out (here: an invalid UTF-8 byte) the token stream is empty although the input is not, so
// the tokens do not tile the input.

import (
	"strings"
	"testing"

	"github.com/bufbuild/protocompile/experimental/parser"
	"github.com/bufbuild/protocompile/experimental/report"
	"github.com/bufbuild/protocompile/experimental/source"
)

func TestFC29bPreludeBailout(t *testing.T) {
	text := "syntax = \"proto3\";\nmessage M {}\n// caf\xe9\n" + strings.Repeat("message N {}\n", 3)
	r := &report.Report{}
	file, _ := parser.Parse("a.proto", source.NewFile("a.proto", text), r)
	var sb strings.Builder
	for tok := range file.Stream().All() {
		sb.WriteString(tok.Text())
	}
	if sb.String() != text {
		t.Fatalf("tokens cover %d of %d input bytes (diagnostics: %d)", sb.Len(), len(text), len(r.Diagnostics))
	}
}
